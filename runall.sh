#!/bin/bash
# runall.sh [quick|thorough] : run every claimed check against /repo, sequentially; print a one-line result each.
tier=${1:-quick}
cd "$(dirname "$0")"
for id in $(python3 -c "import plan; print(' '.join(plan.PLAN))"); do
  out=$(./check $id $tier 2>&1); rc=$?
  echo "$id rc=$rc $(echo "$out" | grep -E "evaluations" | head -1)"
  [ $rc -ne 0 ] && echo "$out" | grep -E "VIOLATION|INCONCLUSIVE|KNOWN" | head -5
done
