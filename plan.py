"""Per-property run plans: which test functions run, how many cases, how many processes."""


def rapid(name, test, checks, shards=1, **kw):
    return dict(name=name, kind="rapid", test=test, checks=checks, shards=shards, **kw)


def enum(name, test, shards=1, **kw):
    return dict(name=name, kind="enum", test=test, shards=shards, **kw)


def fuzz(name, test, secs, **kw):
    return dict(name=name, kind="fuzz", test=test, secs=secs, **kw)


PLAN = {
    "C01": dict(
        pkg="c01",
        rule=("one item descriptor per case (all dynamic types the generator knows: nil, string, rune, numbers, bool, slices, maps, structs, pointers, nested cells to depth 3, "
              "the 32-type interface matrix {String,GoString,Error,Height,TerminalCellWidth} by value and by pointer, pointer-receiver types) plus an optional "
              "mutation of the item behind the cell's back; observation script NewCell/read/mutate/read/Update/read, stand-alone and inside a table, and the text as shown by the CSV renderer. "
              "Oracle: text-form function written from the statement. The text is also observed through the boxless text renderer and the HTML renderer, and for items that do not override their size the cell's height/lines/width must follow the text, also after mutation and Update. Non-trivial: item implements >=2 text interfaces, or is a rune, nested cell or nil, or has empty text, or is mutated then updated. "
              "Distinct: (kind, mask, pointer-ness, nesting depth, text hash, mutation)."),
        level_text=("Generated-input search against a specification function (text-form dispatch written from the property statement), plus complete enumeration of the "
                    "32x2 interface matrix with empty/non-empty texts and three mutation classes, plus native fuzzing of the texts. Exploration level."),
        level_note="Trusts the harness' TextForm (30 lines), fmt's %v (used as the statement says), and that the materialised item types are representative of 'all dynamic types'.",
        technique="property-based testing (rapid) against a specification function + exhaustive enumeration of the interface matrix + native Go fuzzing",
        quick=[rapid("prop", "TestProp", 20000), enum("matrix", "TestEnum")],
        thorough=[rapid("prop", "TestProp", 200000, shards=16), enum("matrix", "TestEnum"), fuzz("fuzz", "FuzzC01", 60)],
    ),
    "C02": dict(
        pkg="c02",
        rule=("model-based stateful testing: rapid-generated build histories of 1..25 (thorough 40) operations over AddHeaders (repeated, any position), AddRowItems, NewRow/NewRowWithCapacity/NewRowSizedFor, "
              "Row.Add before and after attach and on separators, AddRow of pending rows, AddRow of a zero-value row, AddSeparator, AppendNewRow; 0..5 cells usually, heavy tail to 24 so tables cross the 10/20 column capacities; "
              "tables created through core and wrapper constructors. After EVERY step the whole observable state (NRows, AllRows identity/order, NColumns, CellAt over [-1,NRows+1]x[-1,NColumns+2] incl. text, item identity, "
              "location and cell identity via a marker property, Row.Location/IsSeparator/Cells, pending rows, Column(n) for n in [-2,NColumns+2], Headers, mutation of the AllRows copy) is compared with a reference model. "
              "Plus exhaustive enumeration of every history up to 4 (thorough 6) operations over an 11-operation alphabet. "
              "Non-trivial: the history has a Row.Add on an attached row, headers after rows, a zero-cell row/header, a separator, or ragged rows. Distinct: op-kind/arity/ref sequence."),
        level_text=("Model-based (stateful) property testing with a lock-step reference model and a full observation sweep after every step; bounded exhaustive enumeration of short histories. "
                    "Exploration level: histories are unbounded; complete only within the enumerated bound."),
        level_note="Trusts the reference model in internal/gen/script.go (counts, order, per-row cell lists). When AddHeaders replaced a longer header by a shorter one NColumns may lie anywhere between the current and the historical maximum (the statement is ambiguous there).",
        technique="model-based stateful property testing (rapid) + bounded exhaustive enumeration of build histories",
        quick=[rapid("prop", "TestProp", 5000), enum("enum", "TestEnum", shards=11, env={"VERIF_C02_ENUM_LEN": 5})],
        thorough=[rapid("prop", "TestProp", 100000, shards=16), enum("enum", "TestEnum", shards=11, env={"VERIF_C02_ENUM_LEN": 6})],
    ),
    "C03": dict(
        pkg="c03",
        rule=("rapid-generated build histories of string cells over a width-hostile alphabet (multi-line, CJK wide, full-width, combining, zero-width, emoji ZWJ/flag/skin-tone sequences, grapheme extenders, tabs), "
              "ragged and zero-cell rows, header anywhere in the history or absent, separators anywhere, Row.Add after attach; decoration = each of the six built-ins (by registry name or constructor) or a custom decoration "
              "(random non-empty subset of the 22 glyph fields set to distinct width-1 glyphs, completed by Populate). Oracle: independent reference renderer written from the statement, byte-exact comparison; plus, "
              "where the library's measure is additive for every cell line, all rendered lines must have equal display width. Some cases also set alignments, put other renderers' wrappers on the same table (optionally rendering through them), create and render the text wrapper while the table is still incomplete, mutate an item and Update() its cell, and render the text wrapper up to three times: every render must equal the reference. Tables with zero columns are out of the property's domain and skipped (counted). "
              "Non-trivial: a multi-line cell, a non-ASCII/wide/zero-width token, a ragged or zero-cell row, a header narrower than the body, or a custom decoration. Distinct: FNV-64 of the case."),
        level_text=("Generated-input search with a differential oracle (independent reference renderer) and a metamorphic rectangle check computed only from the actual output; native fuzzing of cell texts. Exploration level."),
        level_note="Trusts the reference renderer (internal/oracle/text.go, ~200 lines, shares only length.StringCells with the library), Populate() for filling custom decorations, and glyphs of display width 1 (the documented precondition).",
        technique="property-based testing (rapid) with an independent reference renderer (differential) + rectangle invariant + native Go fuzzing",
        quick=[rapid("prop", "TestProp", 6000)],
        thorough=[rapid("prop", "TestProp", 100000, shards=16), fuzz("fuzz", "FuzzC03", 60)],
    ),
    "C04": dict(
        pkg="c04",
        rule=("C03's grids crossed with an alignment drawn from {unset,left,right,centre} for column 0 and each column, and with items from the interface matrix that declare their own width "
              "(single non-empty text line incl. ANSI escapes, declared 0..12: smaller, equal, larger than measured) and/or height (declared 0..5 against 0..n text lines, incl. empty text). "
              "Oracle: the reference renderer extended by the statement (effective alignment = own else column 0 else left; pad right/left/split with the odd space on the right; declared width used for column and padding; "
              "row height = max(declared height, text lines, 1)), byte-exact. Plus full enumeration of 4^3 alignment assignments on three fixed grids under three decorations. "
              "As in C03, cases may render the text wrapper early and repeatedly, carry other wrappers on the table and mutate items between (a width-declaring item left without exactly one text line by a mutation makes the case out of domain). Non-trivial: a column inherits its alignment from column 0, or a centred line has an odd pad, or an item overrides its size. Distinct: FNV-64 of the case."),
        level_text=("Generated-input search with a differential oracle (reference renderer) over alignments and size-overriding items, plus a small exhaustive alignment matrix. Exploration level."),
        level_note="Same trusted base as C03. Width-declaring items are generated with exactly one non-empty text line (what the statement covers); negative declarations and non-Alignment property values are out of domain.",
        technique="property-based testing (rapid) with an independent reference renderer (differential) + exhaustive alignment matrix",
        quick=[rapid("prop", "TestProp", 6000), enum("matrix", "TestEnum")],
        thorough=[rapid("prop", "TestProp", 150000, shards=16), enum("matrix", "TestEnum")],
    ),
    "C05": dict(
        pkg="c05",
        rule=("rapid-generated build histories (AddHeaders/AddRowItems/NewRow*/Row.Add before and after attach/AddRow/AddSeparator/AppendNewRow) "
              "of string cells over a CSV-hostile token alphabet and raw bytes, rendered as CSV, parsed by a strict all-quoted RFC 4180 "
              "state machine and compared record by record with the reference model. Items are mostly strings, sometimes any other kind (text form by the model); in a quarter of the cases the same wrapper first renders into a writer that accepts half of one write and fails; the caller scrambles the AllRows copy before rendering. Non-trivial: some field contains a quote, comma, CR or LF, "
              "or a row/header has zero cells, or a separator is present. Distinct: FNV-64 of the case JSON."),
        assumptions=["at most one AddHeaders per history (a replaced, shorter header makes 'the column count' ambiguous; C02 covers it)"],
        level_text=("Generated-input search with an independent strict RFC 4180 parser as round-trip oracle and a reference model of the build history as ground truth; "
                    "shrunk counter-examples are replayable JSON cases. Exploration level: the input space (arbitrary byte strings x shapes) is unbounded."),
        level_note="Trusts the harness' own parser and model (both written from the property statement, ~100 lines), rapid's generators, and the Go toolchain.",
        technique="property-based testing (rapid, model-based round-trip through a strict parser) + native Go fuzzing of the same oracle",
        quick=[rapid("prop", "TestProp", 10000)],
        thorough=[rapid("prop", "TestProp", 150000, shards=16), fuzz("fuzz", "FuzzC05", 60)],
    ),
    "C06": dict(
        pkg="c06",
        rule=("rapid-generated build histories of string cells over a markup-hostile alphabet (angle brackets, quotes, ampersands, entity look-alikes with and without semicolon, script/style/comment/CDATA text, closing tags of the skeleton, "
              "template delimiters, backslashes, control characters, newlines, U+FFFD and non-characters, wide characters), any shape incl. ragged/zero-cell/zero-value rows and separators anywhere; Id, Class, Caption, TemplateName each empty or hostile; "
              "optional recording row-class generator; one or two renders on the same wrapper. Oracle: strict tokenizer (tags of the form <name attr=\"v\"> only) + exact skeleton computed from the model + html.UnescapeString of every th/td/caption text and attribute value "
              "equals the supplied string + generator call log equals [0]++[1-based positions of non-separator rows]. The row-class generator may be replaced, installed or removed between the 1..3 renders on the same wrapper; a row may be added to the table twice (positions are by place in the table). Non-trivial: some supplied string contains one of < > & \" '. Distinct: FNV-64 of the case."),
        level_text="Generated-input search with a round-trip oracle (tokenise, match the exact skeleton, entity-decode and compare with the model) plus native fuzzing of all seven strings. Exploration level.",
        level_note="Trusts the harness' tokenizer/skeleton matcher and Go's html.UnescapeString as the entity decoder. Inputs are valid UTF-8 without NUL (html/template replaces those by U+FFFD by design); row-class return values are benign by construction.",
        technique="property-based testing (rapid) with a strict tokenizer + skeleton round-trip oracle + native Go fuzzing",
        quick=[rapid("prop", "TestProp", 4000)],
        thorough=[rapid("prop", "TestProp", 60000, shards=16), fuzz("fuzz", "FuzzC06", 60)],
    ),
    "C07": dict(
        pkg="c07",
        rule=("rapid-generated build histories whose header texts come from a JSON-hostile alphabet (quotes, backslashes, every control character class incl. BEL/VT/ESC/DEL, U+2028/2029, <>&, non-BMP and unassigned code points; "
              "duplicates, empties and too-few headers arise naturally) and whose items cover every JSON kind (nil, strings, ints, floats incl. NaN/Inf, bool, slices, maps, empty map, structs with and without exported fields, "
              "Stringers over field-less structs, TextMarshaler, json.Marshaler, runes, nested cells, unencodable channels); ragged, zero-cell and zero-value rows, Row.Add after attach, separators in every position "
              "(leading, trailing, repeated, only); skipable in {unset,true,false,non-bool} for column 0 and each column. Oracle: model decides error-vs-output; on error Render must return \"\"; otherwise json.Valid, "
              "a token-stream walk (array of objects, no duplicate keys, keys in column order) compared with the expected key set and the compacted expected value (json.Marshal(item), or of the text when that is {} and the text is non-empty). "
              "A third of the cases carry a property history on the columns (skipable set, replaced and removed again, interleaved with alignment and user properties): the last setting wins and nil removes. Non-trivial: a separator is first/last/repeated/alone, a skipable column has an empty cell, a header needs escaping, or the empty-object fallback applies. Distinct: FNV-64 of the case."),
        level_text="Generated-input search with a round-trip oracle (decode with encoding/json's token stream and compare with the model). Exploration level.",
        level_note="Trusts encoding/json as the definition of 'valid JSON' and of 'the JSON encoding of the item', and the model's text form for emptiness. Header texts are valid UTF-8 (JSON cannot carry other bytes).",
        technique="property-based testing (rapid), model-based round-trip through encoding/json's decoder + native Go fuzzing",
        quick=[rapid("prop", "TestProp", 10000)],
        thorough=[rapid("prop", "TestProp", 300000, shards=16), fuzz("fuzz", "FuzzC07", 60)],
    ),
    "C08": dict(
        pkg="c08",
        rule=("rapid-generated build histories with a header, string cells over a Markdown/HTML-hostile alphabet (pipes, escaped pipes, backslashes, backticks, LF in every position incl. a single trailing LF, entity look-alikes of pipe/LF, "
              "angle brackets, quotes, ampersands, delimiter-row look-alikes, wide characters) plus raw bytes, CR excluded (documented non-goal); ragged, zero-cell and zero-value rows, short headers, separators; "
              "alignment from {unset,left,right,centre} for column 0 and each column. Oracle from the statement: line count = 2 + data rows; every line has exactly ncols+1 pipes, none backslash-escaped; delimiter cells match ^ ?(:?)-{3,}(:?) ?$ "
              "with the colon markers of the effective alignment (own else column 0); each cell trimmed of spaces and entity-decoded equals the space-trimmed text; no raw < > \" ' CR, every & starts an escape; missing header or zero columns => error and \"\". "
              "Items are strings, runes of special characters and other kinds; the wrapper may be created and rendered while the table is incomplete, items may be mutated and Update()d in between. Non-trivial: content contains a pipe, LF, angle bracket or ampersand, or an alignment is inherited from column 0, or a row is short. Distinct: FNV-64 of the case."),
        level_text="Generated-input search with a structural parser of the GFM table and a decode-and-compare round trip against the model; native fuzzing of cell texts and alignments. Exploration level.",
        level_note="Trusts the harness' line/pipe splitter and html.UnescapeString. Padding widths are not asserted (documented as best-effort). Left alignment accepts no marker or a leading colon.",
        technique="property-based testing (rapid) with a GFM-structure parser + decode round trip + native Go fuzzing",
        quick=[rapid("prop", "TestProp", 10000)],
        thorough=[rapid("prop", "TestProp", 150000, shards=16), fuzz("fuzz", "FuzzC08", 60)],
    ),
    "C09": dict(
        pkg="c09",
        rule=("exhaustive: every sequence of 0..4 (thorough 0..5) symbols over a 15-symbol alphabet (AddHeaders with 0/1/2 cells incl. multi-line, AddRowItems with 0/1/2/3 cells incl. nil/empty/wide, AddSeparator, AppendNewRow, "
              "Row.Add on the last created row incl. separators and attached rows, a pre-built row via NewRowSizedFor+Add+AddRow, rows with height-under-declaring, height-over-declaring, width-mis-declaring and empty-text-zero-width items, a zero-value row, a row holding a NaN float which JSON cannot encode) "
              "x 11 styles (csv, html, json, markdown, the six registered decorations, an unknown decoration) x {wrapper Render(), auto.Render(style)}, each on a freshly built table; plus rapid-generated histories of up to 40 operations "
              "with items of every kind incl. items whose declared size disagrees with the text in every direction (negative, zero, too small, too large). Oracle under recover(): no panic; error => empty string and RenderTo also fails; "
              "no error => Render equals what RenderTo writes and non-empty output is newline-terminated. Two more jobs render SEVERAL times on ONE table: every history of 0..2 (thorough 3) symbols followed by every ordered triple over {csv, markdown, utf8-heavy, none, json} through reused wrappers, and rapid-generated histories (incl. item mutation + Cell.Update, repeated headers) with 2..8 renders interleaved at arbitrary points through reused or fresh wrappers or auto.Render. Non-trivial: the history has a zero-cell row/header, a late add, a separator first or last, or a size-disagreeing item. "
              "Enumerated (history, style, route) triples are distinct by construction; random cases by FNV-64 of the case."),
        level_text=("Bounded exhaustive enumeration of build histories crossed with every renderer, style and entry point, with a validity predicate under recover(); random longer histories on top. "
                    "Exploration level; complete within the enumerated bound (reported as enumerated_subruns)."),
        level_note="The validity predicate only demands what the statement says (no panic; error => no text; success => Render == RenderTo and newline-terminated non-empty output); it does not judge the content (C03-C08 do).",
        technique="bounded exhaustive enumeration of operation sequences x renderers + property-based testing (rapid) with a validity predicate under recover()",
        quick=[enum("enum", "TestEnum", shards=15, env={"VERIF_C09_ENUM_LEN": 4}), rapid("prop", "TestProp", 5000),
               enum("enumseq", "TestEnumSeq", shards=8, env={"VERIF_C09_SEQ_LEN": 2}), rapid("seq", "TestPropSeq", 3000)],
        thorough=[enum("enum", "TestEnum", shards=15, env={"VERIF_C09_ENUM_LEN": 5}, timeout=3000), rapid("prop", "TestProp", 30000, shards=16),
                  enum("enumseq", "TestEnumSeq", shards=16, env={"VERIF_C09_SEQ_LEN": 3}, timeout=3000), rapid("seq", "TestPropSeq", 20000, shards=16)],
    ),
    "C10": dict(
        pkg="c10",
        rule=("rapid-generated contents (build histories with string and mixed items, repeated headers, late adds, separators; alignments and skipable settings) x creation path (core New, each sub-package New, auto.New of every listed style and of "
              "case/section variants) x nesting chain of 0..3 wrappers over {csv, html, json, markdown, texttable, texttable set to another decoration} applied before or after building x target in {csv, html, json, markdown, each registered decoration}, "
              "optionally with a long-lived target wrapper created and rendered while the table was still incomplete. Histories include item mutation + Cell.Update; a quarter of the cases first let a sibling table fail part-way in the target format; every wrapper of the nesting that is of the target kind is rendered three times through its own handle. Oracle (differential/metamorphic): the same content replayed on a core table and rendered once by X.Wrap(t).Render(); "
              "X.Render(t), X.Wrap(t).Render(), X.RenderTo(t,w), X.Wrap(t).RenderTo(w), Render-then-RenderTo on one wrapper, the table's own Render() when it is of the target kind, auto.Render/RenderTo/Wrap with the style and 'texttable.<style>', "
              "and the long-lived wrapper must all be byte-identical to it and agree on error-ness. Plus an enumeration of 2 contents x 20 creation paths x 57 chains (depth<=2) x 10 targets x 2 build orders. "
              "Non-trivial: creation path other than core, or a wrapper of another kind than the target in the chain. Distinct: FNV-64 of the case."),
        level_text="Generated-input search with a differential/metamorphic oracle (many routes to one answer must agree with a single-route reference), plus a bounded enumeration of creation paths x wrapper chains x targets. Exploration level.",
        level_note="The reference is produced by the library itself on the simplest route (core New + X.Wrap(t).Render()), so an error common to all routes is invisible here (C03-C08 judge content). Items whose %v text embeds a memory address are not generated (two builds cannot agree on them).",
        technique="property-based testing (rapid) with a differential/metamorphic route-agreement oracle + bounded enumeration of configurations",
        quick=[rapid("prop", "TestProp", 3000), rapid("shadow", "TestShadow", 1500), enum("routes", "TestEnum", shards=12)],
        thorough=[rapid("prop", "TestProp", 60000, shards=16), rapid("shadow", "TestShadow", 20000, shards=8), enum("routes", "TestEnum", shards=12)],
    ),
    "C11": dict(
        pkg="c11",
        rule=("(A) container algebra: rapid-generated sequences of AddError(e|nil), AddErrorList(nil | empty | all-nil | mixed | clean) and Errors() on NewErrorContainer(), &ErrorContainer{} and a nil *ErrorContainer, compared after every step with a model list "
              "(nil iff empty, element-wise identical, never a nil entry, nil container = no-op). (B) table histories: build operations interleaved with Row.AddError on pending and attached rows, Row.Add on separator and zero-value rows, registration of failing recording "
              "callbacks on every owner (table, column incl. 0, row pending/attached, cell) x 4 times x 3 targets before or after the rows exist, and render passes (InvokeRenderCallbacks, csv, texttable); every raised error is unique. After every step: each pending row reports exactly "
              "the errors raised on it, in order; the table reports every error raised on it or on rows that have joined it exactly once, no nil, per-source order preserved, misuse errors counted. "
              "Part A works on two containers: errors of one are merged into the other via Errors(), and the caller overwrites and extends the list it passed last. Part A is also enumerated: every sequence of up to 5 (thorough 6) operations over a 12-operation alphabet on each kind of container. Non-trivial: (A) a zero-value or nil container receives a list with a nil entry; (B) an error on a pending row, a failing callback, or a cell added to a separator. Distinct: FNV-64 of the history."),
        level_text="Model-based (stateful) property testing: the history is one shrinkable value, the model invariant runs after every step. Exploration level.",
        level_note="The oracle is driven by the errors the harness' callbacks actually returned (not by a firing specification), so it holds for any callback schedule; errors not created by the harness are ignored except the documented misuse error. Caller-side aliasing of slices passed in or handed out is not asserted.",
        technique="model-based stateful property testing (rapid) with an invariant after every step + bounded exhaustive enumeration of container histories",
        quick=[rapid("containers", "TestPropA", 10000), rapid("tables", "TestPropB", 20000), enum("enumA", "TestEnumA", env={"VERIF_C11_ENUM_LEN": 5})],
        thorough=[rapid("containers", "TestPropA", 200000, shards=8), rapid("tables", "TestPropB", 150000, shards=16), enum("enumA", "TestEnumA", env={"VERIF_C11_ENUM_LEN": 6}, timeout=3000)],
    ),
    "C12": dict(
        pkg="c12",
        rule=("stateful: rapid-generated histories of 3..30 (thorough 60) operations over set / set-to-nil / re-set-same-value / copy a cell by value / add a copied cell to a row / grow the table (0..24 cells, crossing the 10- and 20-entry capacities) / "
              "AddHeaders / pending rows and attach / separators / take and keep a column handle, on owners {table, table through a wrapper, Column(n) fetched now, handles taken earlier, rows attached and pending and separators, live cells, header cells, by-value cell copies}, "
              "keys from a pool mixing int(1), int64(1), \"1\", a named int type, a struct, two distinct pointers to equal values, uint8(1) and the library's own alignment key. More operations: set 8..12 keys at once, build a cell from a cell (a new owner with no properties), call Update() on cell owners. Oracle: one map per owner; after EVERY step every key of the pool is read on EVERY owner "
              "(so a cross-owner leak shows at once); re-setting a key to its current value must leave len(%#v owner) unchanged. Plus an enumeration of every history of up to 4 (thorough 6) operations over a 14-operation alphabet (three keys, a cell, its by-value copy, a column handle, copying, growth past ten columns, re-setting). Non-trivial: >=2 keys on one owner and a cell copy or a handle held across growth. Distinct: FNV-64 of the history."),
        level_text="Model-based (stateful) property testing with a per-owner map model and a global read-back sweep after every step. Exploration level.",
        level_note="Cell owners are re-resolved through the row at every use (only column handles are required to stay valid across growth). The growth check is representation-agnostic (length of the %#v rendering).",
        technique="model-based stateful property testing (rapid) with a per-owner map model + bounded exhaustive enumeration of small histories",
        quick=[rapid("prop", "TestProp", 5000), enum("enum", "TestEnum", shards=7, env={"VERIF_C12_ENUM_LEN": 4})],
        thorough=[rapid("prop", "TestProp", 150000, shards=16), enum("enum", "TestEnum", shards=14, env={"VERIF_C12_ENUM_LEN": 6}, timeout=3000)],
    ),
    "C13": dict(
        pkg="c13",
        rule=("exhaustive: each of the 48 (owner kind x time x target) registrations singly and every ordered pair (2304), made at every registration point (before, between and after the build operations) of 4 small shapes "
              "(with/without header, 0..2 cells, separator, a pending row filled before and after attach, a late Row.Add, a zero-cell row), followed by two render passes; plus rapid-generated histories of up to 16 (thorough 28) steps interleaving build operations, "
              "registrations on table/column(incl. 0)/row(pending or attached)/cell/header cell and render passes (InvokeRenderCallbacks or a csv render), on tables created through core and wrapper constructors. A macro step registers a render callback on a stand-alone cell, adds that cell by value to two rows and registers one more callback on each copy; rows may be 9..22 cells wide and registrations may address the highest column. Callbacks are recorders: they log (registration, identity of the object handed over) "
              "and write a marker property on it. Oracle: a firing table transcribed from the statement predicts, for the specified slots, the exact sequence of (slot, target) groups per operation and per pass (registration order inside one slot is not compared); "
              "the object handed over must be a live object of the table (pointer identity); the marker must be readable afterwards through table.GetProperty / Column(n) / the row / CellAt; unsupported owner/target combinations must be refused and all others accepted. "
              "Slots the statement leaves open (table-itself RENDER, row callbacks at render time on the table, RENDER on row/column cell sets, PRE/POST on a cell, column 0, column-level firing on header cells, add-time firing for the header row, late-added cells for table/column add callbacks) are filtered out. "
              "Non-trivial: registrations on two owner kinds, or registration before the rows exist, or two render passes. Distinct: FNV-64 of the history."),
        level_text="Exhaustive enumeration of the registration matrix (singly and in pairs) on small shapes plus model-based stateful property testing of longer histories, against a firing model written from the statement. Exploration level; complete within the enumerated bound.",
        level_note="Trusts the firing model in c13.go (predictOp/predictRender/specified). Only slots the statement fixes are compared.",
        technique="exhaustive enumeration of registrations x shapes + model-based stateful property testing (rapid) against a firing model",
        quick=[enum("matrix", "TestEnum", shards=8), rapid("prop", "TestProp", 10000)],
        thorough=[enum("matrix", "TestEnum", shards=8), rapid("prop", "TestProp", 200000, shards=16)],
    ),
    "C14": dict(
        pkg="c14",
        rule=("rapid-generated tables (build histories with strings, mixed items and items whose declared size disagrees with their text; alignments; skipable settings; tables that already carry errors) followed by 2..12 acts: "
              "render in one of a small palette of styles (csv, html, json, markdown, six decorations) through a fresh wrapper or through the long-lived wrapper of that style, or set a user property (private key type) on the table, a column, a row, a cell or a header cell "
              "- also between renders, on cells the renderers have already measured. Further acts: mutate an item and Update() its cell (the reference then includes the mutation), and render into a failing writer (from k / once at k / partial at k) through a fresh or the long-lived wrapper. Oracle: (1) after every act the full snapshot (row/column counts, row identity/separator/location, every cell's text, location and item identity, headers, the error list element by element, every user-set property) "
              "equals the model; (2) every render's bytes and error-ness equal the fresh-replica reference for its style: the same content replayed on a brand-new table rendered exactly once in that style only (so interference that is present already at first use is seen). "
              "Non-trivial: >=2 distinct styles, a repeated style, and a reused wrapper. Distinct: FNV-64 of the case."),
        level_text="Generated-input search over render sequences with a snapshot invariant and a metamorphic fresh-replica oracle. Exploration level.",
        level_note="The fresh-replica reference is produced by the library on an untouched table; an error common to every first render is invisible here (C03-C08 judge content). Items whose text embeds a memory address are not generated.",
        technique="property-based testing (rapid): snapshot invariant over render histories + metamorphic fresh-replica comparison",
        quick=[rapid("prop", "TestProp", 8000, shards=4), enum("default", "TestDefault")],
        thorough=[rapid("prop", "TestProp", 80000, shards=16), enum("default", "TestDefault")],
    ),
    "C15": dict(
        pkg="c15",
        level="fault_enumeration",
        rule=("rapid-generated tables (headed, distinct keys so that every renderer succeeds; multi-line cells; separators; ragged rows; alignments) x renderer in {csv, html, json, markdown, text under utf8-heavy / none (boxless) / ascii-simple / utf8-light}; "
              "for each (table, renderer) a fault-free run counts the Write calls W and records the output, then EVERY k in [0,W) x mode in {every call from k on fails, only call k fails, call k writes half of its bytes and reports an error while later calls succeed} "
              "is run on a freshly built table with a scripted io.Writer. After each fault the same wrapper is asked again, first with another writer failing once (prefix property again) and then with a healthy writer (the full fault-free output). A fifth of the tables have no header (csv, html, text); the injected error value is a private error, io.EOF, io.ErrShortWrite or io.ErrClosedPipe; a quarter of the writers also offer WriteString and WriteByte (a call to any of the three counts as a write); one table in sixty is replayed to tens of kilobytes of output (its write indices are sampled: every step-th plus the last two). Oracle: RenderTo returns a non-nil error, does not panic, and the concatenation of the bytes the writer accepted is a prefix of the fault-free output. "
              "Each (table, renderer, k, mode) is one evaluation and a distinct fault point; non-trivial if k > 0 or the mode is not 'fails from k on'."),
        level_text="Fault enumeration: for every generated (table, renderer) pair the space of single write-fault points (index x 3 modes) is enumerated completely (for the rare tables replayed to tens of kilobytes the indices are sampled: every step-th plus the last two); after each fault the same wrapper is driven through a second faulty render and a healthy one. Tables, error values and writer kinds are drawn by rapid. Complete per ordinary table, exploratory over tables.",
        level_note="Faults are injected at the granularity of calls to the writer (Write, and WriteString/WriteByte when the writer offers them) with three failure modes; of multi-fault sequences only 'fault at k, then one fault in the next render on the same wrapper' is exercised. Tables whose fault-free render fails are skipped (counted).",
        technique="fault injection enumerated over every write index x failure mode, on rapid-generated tables (property-based testing)",
        quick=[rapid("prop", "TestProp", 80, shards=4, min_evals=80), enum("cross", "TestCross", shards=16)],
        thorough=[rapid("prop", "TestProp", 2500, shards=16, min_evals=2500, timeout=6000), enum("cross", "TestCross", shards=16)],
    ),
    "C16": dict(
        pkg="c16",
        replay_race=True,
        rule=("rapid-generated concurrent programs: 2..8 (thorough 16) goroutines, each building its OWN table from its own build history through its own creation path and rendering it 1..4 times in styles drawn from a small shared palette "
              "(csv, html, json, markdown, every registered decoration, 'texttable'), through fresh or reused wrappers, into a writer that yields the processor at every Write so that renders interleave; optionally one more goroutine reads the decoration registry and the style listing meanwhile. "
              "Tables of different goroutines share cell texts, as plain strings in one and as width- or height-declaring items in another, and may hold NaN/Inf floats (JSON fails part-way). Each case is run 3 times. The test binary is built with the Go race detector (GORACE=halt_on_error=1). Oracle: no data race report and no fatal runtime error, and every concurrent output (or error-ness) equals the output of the same program run alone, sequentially, beforehand. "
              "The case is written to disk before it runs so that a process-killing failure still has a replay file. Non-trivial: at least two goroutines render the same style concurrently. Distinct: FNV-64 of the case."),
        level_text=("Generated concurrent programs under the Go race detector with a sequential-reference differential oracle; schedules are sampled (many rounds, a yielding writer, several GOMAXPROCS values in the thorough tier), not enumerated. Exploration level."),
        level_note="The harness does not own Go's scheduler: an interleaving-dependent output mix-up that involves no unsynchronised access is found only if a sampled schedule hits it. The race detector reports an unsynchronised conflicting pair whenever both accesses execute in a run.",
        technique="property-based testing (rapid) of generated concurrent programs under the Go race detector, differential against a sequential run",
        quick=[rapid("prop", "TestProp", 300, race=True, env={"GORACE": "halt_on_error=1"}, shrinktime="5s"),
               enum("sizes", "TestSizes", race=True, env={"GORACE": "halt_on_error=1"}), enum("widen", "TestWiden")],
        thorough=[rapid("prop", "TestProp", 1500, shards=16, race=True, env={"GORACE": "halt_on_error=1"}, gomaxprocs=[2, 4, 8, 16], shrinktime="5s"),
                  enum("sizes", "TestSizes", race=True, env={"GORACE": "halt_on_error=1"}), enum("widen", "TestWiden")],
    ),
    "C17": dict(
        pkg="c17",
        replay_race=True,
        rule=("(seq) rapid-generated sequential histories of RegisterDecorationName (incl. overwrites), Named, RegisteredDecorationNames and renders by name over a per-case pool of fresh names that sort before, between or after the built-ins, "
              "against a map model: lookup = latest registered value or the empty decoration; listing strictly sorted (hence duplicate-free) and, projected onto the case's names and the built-ins, equal to the model's key set plus all six built-ins. "
              "Listings handed out are scribbled on by the caller, auto.ListStyles is called in between, and an unknown name is also set after a known name or an explicit decoration. (conc) 2..6 goroutines x 3..9 such operations each, every call stamped with an atomic logical clock at call and return, followed by quiescent reads of every name and the listing; the recorded history is checked for linearizability "
              "against the same map specification with porcupine (every registered value is unique, so a read identifies the write it saw); built with the race detector. (burst) 2..32 goroutines each registering their own name 1..3 times, 20..60 rounds, "
              "then Named must return the latest and the listing must contain every name. (unknown) SetDecorationNamed of unknown names (\"\", case variants, names with trailing characters, sub-package names) must return an error and both the receiver and the returned table must refuse to render. "
              "Non-trivial: an overwrite (seq); one name written by two goroutines or a listing overlapping registrations (conc); >=2 goroutines (burst). Distinct: FNV-64 of the case."),
        level_text=("Model-based testing of sequential histories; generated concurrent histories under the Go race detector checked for linearizability (porcupine) against the sequential map model; final-state checks after registration bursts. "
                    "Schedules are sampled, not enumerated. Exploration level."),
        level_note="The registry is process-global and never shrinks: each case uses fresh names and listings are projected. The linearizability verdict is exact for each recorded history; which histories occur depends on Go's scheduler.",
        technique="model-based property testing (rapid) + race detector + linearizability checking (porcupine) of recorded concurrent histories",
        quick=[rapid("seq", "TestSeq", 1000, shards=3, race=True, env={"GORACE": "halt_on_error=1"}), rapid("conc", "TestConc", 300, race=True, env={"GORACE": "halt_on_error=1"}, shrinktime="5s"),
               rapid("burst", "TestBurst", 60, race=True, env={"GORACE": "halt_on_error=1"}, shrinktime="5s"), rapid("unknown", "TestUnknown", 500, race=True), enum("fresh", "TestFresh", shards=6, race=True)],
        thorough=[rapid("seq", "TestSeq", 2000, shards=16, race=True, env={"GORACE": "halt_on_error=1"}),
                  rapid("conc", "TestConc", 2000, shards=12, race=True, env={"GORACE": "halt_on_error=1"}, gomaxprocs=[2, 4, 8, 16], shrinktime="5s"),
                  rapid("burst", "TestBurst", 300, shards=8, race=False, env={"VERIF_C17_BURST_ROUNDS": 400}, gomaxprocs=[4, 8, 16, 16], shrinktime="5s"),
                  rapid("unknown", "TestUnknown", 5000, race=True), enum("fresh", "TestFresh", shards=6, race=True)],
    ),
    "C18": dict(
        pkg="c18",
        rule=("strings built from a width-hostile token alphabet (newlines leading/trailing/repeated, CJK wide, full-width, combining, zero-width, emoji ZWJ/flag/skin-tone sequences, "
              "grapheme extenders), arbitrary bytes and rapid's full-Unicode strings; each also stored in a cell as a plain string, Stringer, pointer-receiver Stringer, error, GoStringer, %v-formatted bytes or nested cell, "
              "and rendered once as a 1x1 text table so that the renderer's stored per-line widths can be compared with the metrics. Oracle: algebraic relations between Lines/LongestLine*/String* and Cell.Height/Lines/TerminalCellWidth. "
              "A third of the cases change the item's text behind the cell and Update() it (heights, lines, widths and the renderer's per-line widths must follow); every case also completes a short row of an already rendered table and renders again (equal to a fresh table, and a rectangle where the measure is additive). Non-trivial: the string is empty, has a leading/trailing/repeated newline, or contains a non-ASCII byte. Distinct: FNV-64 of (string, wrapping)."),
        level_text=("Generated-input search over strings with metamorphic/algebraic oracles (split/join, max-of-per-line, rune/byte/cell inequalities, cell height/width versus line metrics, "
                    "renderer per-line widths versus the metric), plus native byte-level fuzzing of the same oracle. Exploration level."),
        level_note="Trusts go-runewidth as 'the library's own cell-width measure' (the property is relative to it) and utf8.RuneCountInString/len as the rune and byte measures.",
        technique="property-based testing (rapid) with algebraic/metamorphic relations + native Go fuzzing over bytes",
        quick=[rapid("prop", "TestProp", 50000), enum("longlines", "TestLongLines")],
        thorough=[rapid("prop", "TestProp", 300000, shards=16), enum("longlines", "TestLongLines"), fuzz("fuzz", "FuzzC18", 60)],
    ),
    "C19": dict(
        pkg="c19",
        rule=("stateful over the process-global style space: rapid-generated histories of 2..14 actions over {register a new decoration (any built-in or custom populated decoration) under a fresh name from [A-Za-z0-9_-]+ with mixed case, "
              "check auto.ListStyles twice in a row, check a style string}. Style strings are built from a registered or not-yet-registered name, a built-in decoration, a sub-package name, 'texttable', an unknown name or the empty string, in the forms bare / "
              "'texttable.'+name / 'TextTable.'+name / 'TEXTTABLE.'+name / case-flipped sub-package name / with arbitrary trailing sections. Oracle: the listing is sorted and contains csv, html, json, markdown, the six built-ins and every name registered so far; "
              "every listed name of this case (plus the fixed names and a sample of the rest) is accepted by auto.New and renders a fixed headed table without error; a (case-flipped) sub-package name with any trailing sections gives that package's table type and its direct render; "
              "'texttable' gives the default render of texttable.New(); 'texttable.N' and bare 'N' both equal texttable with SetDecorationNamed(N); an unknown or empty name gives a text table whose Render returns an error and \"\"; auto.New(style)+Render and auto.Render(t, style) agree. "
              "Styles are also resolved by re-styling an existing auto table of another style (auto.Wrap(auto.New(x), style)); decorations may be registered under names equal to sub-package names (the sub-package keeps winning, texttable.<name> selects the decoration). Non-trivial: the case registers a name and then resolves a style built from it, or uses a case variant, prefix or trailing section. Distinct: FNV-64 of the case."),
        level_text="Model-based (stateful) property testing over a growing global registry, with a differential oracle (style string versus the renderer selected directly). Exploration level.",
        level_note="Names whose first section equals (case-insensitively) a sub-package name are not generated; nothing is asserted about case variants of decoration names or about what follows a name that itself contains dots.",
        technique="model-based stateful property testing (rapid) with a differential oracle",
        quick=[rapid("prop", "TestProp", 750, shards=4)],
        thorough=[rapid("prop", "TestProp", 2000, shards=48)],
    ),
}

# additions of round 5 (DESIGN 9.13), appended to the rules above
RULE_EXTRA = {
    "C01": "Between mutating the item and reading the cell every read-only accessor and formatter runs (%v, %s, %#v of the cell, its row and the table, Lines/Height/TerminalCellWidth/Item, NewCell(cell), Errors()). Numeric items also of the dynamic types float32, int64, uint64, int8, uint16, complex64 with non-dyadic and extreme values; declared sizes may be negative.",
    "C02": "Histories contain bursts: 2-3 rows made back to back (AppendNewRow, NewRow, NewRowSizedFor) and then grown in turns beyond the width the table had when they were made.",
    "C03": "Declared widths and heights may be negative (read as none); bursts of sibling rows grown in turns.",
    "C04": "A quarter of the cases carry a property history on the columns (alignment, skipable and five user keys of different types, re-set and removed, three columns incl. column 0) applied after Align; declared widths and heights may be negative.",
    "C05": "Fields also drawn at 16 and 32 KiB (sparingly) and as 'expanding' strings: 16..256 bytes long with a quote, comma, CRLF or LF every 1/2/3/8 positions or once at the end; bursts of sibling AppendNewRow rows grown in turns.",
    "C06": "Cell texts are now and then 16..256 bytes dense with characters that become entities.",
    "C07": "Items also of the dynamic types float32, int64, uint64, int8, uint16, complex64 (non-dyadic and extreme values); items may be mutated and the cell updated (empty to non-empty and back); texts dense with characters that need escaping.",
    "C08": "A third of the cases carry a property history on the columns (several keys per column, re-set and removed) after Align: the delimiter row follows the alignment each column ends up with; texts dense with pipes, ampersands, angle brackets, backslashes.",
    "C09": "A tenth of the items are 16..256-byte strings dense with a character some renderer has to escape (quote, <, &, |, backslash, LF, control, U+2028, apostrophe, non-BMP).",
    "C10": "The creating wrapper's own Render runs first, before any other wrapper exists; a quarter of the cases carry a column property history; job 'shadow' repeats the search in a process where decorations were registered under the names csv, html, json, markdown, texttable, CSV and Json.",
    "C12": "Values stored are unique ints, or fresh pointers / maps / structs-with-slices of constant contents (told apart by identity only), or arrays holding the key; cells alternate between plain strings and mutable items, and Update may follow a change of the item's text (other text, no text).",
    "C13": "A quarter of the registered callbacks (and the first of every pair in the exhaustive matrix) do their work and then report an error: no other callback may be skipped for it. The stand-alone seed cell carries 1..9 callbacks before it is copied into two rows and each copy gets one more. Column 0's itself-slots (pre-cell and post-cell) are specified like any column's.",
    "C15": "Writer error values: a private error, io.EOF, io.ErrShortWrite, io.ErrClosedPipe, a PathError over EPIPE, a %w chain, an error whose Unwrap() gives nil, os.ErrDeadlineExceeded, context.Canceled.",
    "C16": "A third of the cases start from a prototype cell carrying 1..9 render callbacks: every goroutine adds a by-value copy to its own table and registers one more callback (which sets an alignment of its own table) on its own copy; optionally the goroutines wait for each other between building and rendering; 0..8 application decorations are registered first and a third of the goroutines take auto.ListStyles and RegisteredDecorationNames as part of their results. Job 'sizes' walks the registry through the sizes 6..40 with four such goroutines and a registry reader at each size.",
    "C17": "Sequential histories also register the empty decoration under a name (the latest registration wins, the name is listed, a table set to it refuses to render). Unknown names include look-alikes of every built-in: 'texttable.'+name, name+'.x', padded, upper-cased, capitalised, truncated, doubled, 'decoration.'+name, 'auto.'+name.",
    "C19": "Names may begin or end with blanks and tabs or hold inner blanks; sub-package and built-in names padded with blanks must resolve as unknown; a wrapper made by auto.Wrap(t, style) is rendered only after five other styles (text, unknown, csv) have been wrapped around, and half of the time rendered on, the same table.",
}

# additions of round 6 (DESIGN 9.14)
RULE_EXTRA6 = {
    "C02": "Histories may note application errors on rows (Row.AddError, pending or attached) and carry property steps in between the build steps.",
    "C03": "Items are now and then cells holding a cell (by value or pointer); histories carry property steps (alignment etc.) in between the build steps, folded into the reference's alignments, and application errors noted on rows.",
    "C04": "Nested cells among the items; property steps in between the build steps (set before the columns exist, changed afterwards) are folded into the effective alignments.",
    "C05": "A third of the cases render early through a kept wrapper (and csv.Render) while the table is still being built; items may be mutated and updated, rows added twice, errors noted on rows.",
    "C06": "A sixth of the items are of any kind the generator knows (incl. the typed strings of html/template: HTML, JS, CSS, URL, HTMLAttr, JSStr, Srcset), their text form by the model.",
    "C07": "A third of the cases render early through a kept wrapper; headers may be replaced afterwards (same width or wider); skipable may be set by property steps in between the build steps; now and then headers and rows of 10-12 cells.",
    "C08": "Headers may be replaced, also by narrower ones: then the table's own column count is the number of columns; alignment may be set by property steps in between the build steps.",
    "C10": "An application render-time cell callback that reports errors for some cells may be registered on the table right after its creation (on the reference table alike).",
    "C11": "A registration step may register 2-4 failing callbacks in one slot; macro: a row of its own is made, given 1-3 failing callbacks, filled, perhaps noted an error on, and then attached.",
    "C12": "Keys also include two pointers of different types to one address and typed nil pointers of different types; macro: a cell gets two keys, is copied, one of the two drops its newest key and takes another.",
    "C13": "If an add-time row callback is handed the header row, that row becomes an owner: its itself- and cell-slots at pre-cell and post-cell time fire like any row's (macro hdrcapture).",
    "C14": "Render acts also use styles that name nothing (they fail the same way every time); restyle acts point ONE kept text wrapper at another decoration (by name or by object, known, unknown or empty) and render: only the last selection counts.",
    "C15": "Error value 'list' (a slice type used by value, not comparable with ==). Job 'cross': 3 fixed tables (incl. a header narrower than its rows, and no header) x 8 renderers x 10 error values x plain/rich writer, every fault point.",
    "C16": "Shared texts and tokens include quotes, angle brackets, ampersands, pipes and backslashes (every format escapes something).",
    "C17": "Every third decoration is registered unpopulated (key points only): Named returns exactly what was registered. Unknown names are also tried through auto.New('texttable.'+name).",
    "C18": "The width alphabet includes terminal control sequences (ANSI colour escapes, OSC, lone ESC, DEL, NUL, BS).",
    "C19": "'texttable.'+sub-package name (any case) is a decoration name like any other: known only if registered.",
}

# additions of round 7 (DESIGN 9.16)
RULE_EXTRA7 = {
    "C01": "Items also of types whose text methods sit on the pointer receiver only, held by value; what Cell.Lines() hands out is overwritten by the caller before the cell is read again.",
    "C04": "Property steps may also store the alignment key on the table itself, on a row or on a cell (no effect on any column); every line list the cells hand out is overwritten by the caller before rendering.",
    "C07": "Header cells may be mutated and updated through Headers(); struct items whose encoding as {} depends on their value (all fields omitempty).",
    "C09": "Styles include four decorations an application registered as they are (bars only, rules only, corners only, two-cell-wide glyphs).",
    "C11": "Error values may be sentinels raised again and again by any source (a plain value, a typed nil pointer with a nil-safe Error method, a slice type that cannot be compared): occurrences are counted. Cell.Update() steps: refreshing a cell raises nothing.",
    "C13": "Update steps (Cell.Update() fires nothing); Grow registrations (a table-owned add-time row callback that adds a cell to the row it is handed: the callbacks that follow are still handed the live cells); Lazy registrations (a render-time callback that registers one more callback on its own table). Every case runs under a watchdog: not back after 30 s and goroutines waiting for a lock below a library frame, unmoved in two stack dumps 3 s apart, is reported as a deadlock.",
    "C14": "restyle acts may make their selection on a by-value copy of the kept text wrapper (the kept one is unaffected); the row list and every line list handed out are overwritten by the caller first.",
    "C15": "Every fault is repeated through the package-level entry points (auto.RenderTo and the sub-package RenderTo functions).",
    "C17": "Concurrent histories and bursts run under the deadlock watchdog described for C13.",
    "C18": "After every reading the caller overwrites the list Cell.Lines() handed out and reads again.",
    "C19": "Registered names may contain dots (selected as a whole, bare and after 'texttable.'); 'texttable.NAME.trailing' selects NAME.",
}

# additions of round 8 (DESIGN 9.17)
RULE_EXTRA8 = {
    "C01": "A third table (headed, its column and column 0 marked skipable) is rendered in every format between the mutation and the reading: no render is an Update.",
    "C02": "Column handles are asked for first, before NColumns or anything else is called.",
    "C03": "Custom decorations may use one-cell glyphs of five to seven bytes; an application's own render-time cell callback (failing for some cells, or not) may be registered before any wrapper exists; rows of up to 12 cells; pending zero-value rows; cells that have lived (and were measured) in another table.",
    "C04": "As C03; width-declaring items and plain cells draw now and then from one small pool of texts.",
    "C06": "Headers may be replaced (also by an empty header row); the template name may be changed between the renders on one wrapper.",
    "C07": "A sixth of the cases make their skipable settings through a render-time callback on the table itself.",
    "C09": "Style strings with further sections through auto ('html.class', 'html.id', 'csv.', 'texttable..', ...); width-declaring items whose text ends inside an unterminated escape sequence.",
    "C10": "A twelfth of the cases first render the finished table 66..131 times through package-level functions of one kind (text or Markdown); cells that have lived in another table.",
    "C11": "Pending zero-value rows (refused cells and noted errors while detached are reported once the row has joined).",
    "C13": "Callbacks may be handed over as values of a func type (not comparable); registrations with an undeclared target or time must be refused whatever the owner.",
    "C14": "After every act each column still says for alignment and skipable what the settings left there; every HTML wrapper carries the same template name, under which another table was rendered first. Job 'default': the default decoration renders the same bytes after stock names were re-registered.",
    "C19": "Name families (P, P.S, P.S.T registered with different decorations): the expectation follows the documented rule on the style as built - the whole remainder if registered, else its first section.",
}

# additions of round 9 (DESIGN 9.18)
RULE_EXTRA9 = {
    "C02": "A sixth of the cases have an application callback that rules off every row: a table-owned add-time row callback that adds a separator when it is handed a row of the table (building from within a building call).",
    "C03": "Custom decorations may be written out completely (every documented glyph field) and used without Populate; an eighth of the cases change the items of the first cells after building and leave Cell.Update() to a pre-cell callback owned by column 1.",
    "C04": "As C03 (complete literal decorations; LateText).",
    "C09": "Two more partial application decorations (inner divider only, header bar only).",
}

# additions of round 10 (DESIGN 9.21)
RULE_EXTRA10 = {
    "C02": "A sixth of the cases have an application callback that adds a computed cell to every row it is handed at add time.",
    "C05": "Now and then the checked output is also appended with RenderTo to a file that already holds a line.",
    "C07": "The ASCII alphabet (every property's) now holds printf verbs (%, %s, 50%, %d%%).",
    "C10": "Wrapper chains may contain an application type that embeds a tabular.Table and is handed around by value.",
    "C11": "Now and then rows and headers of 9-13 cells (past the ten-entry column list in one step); registrations favour the highest column of the moment.",
    "C12": "One more key: a pointer to a struct that holds a slice; one more value form: a typed nil pointer (a value like any other).",
    "C13": "Build steps include property steps on the columns (skipable, alignment, user keys): callbacks fire whatever the columns carry.",
    "C14": "realign acts change a column's alignment between renders (from then on part of the content); an HTML wrapper's template name changes from use to use.",
    "C15": "A sixth of the items are of any kind (also ones JSON renders by their text); HTML wrappers have a row-class generator installed in half of the html cases.",
    "C16": "Now and then a goroutine's table has 260-520 rows and render-time callbacks with plain state of their own.",
    "C19": "auto.RenderTo(t, w, style) must agree with auto.New(style).Render(); what ListStyles handed out is overwritten by the caller before it is asked again.",
}

# properties deliberately not claimed, with the reason (empty: the technique applies to all 19)
NOT_APPLICABLE = {}

for _pid, _extra in RULE_EXTRA.items():
    PLAN[_pid]["rule"] = PLAN[_pid]["rule"] + " Round 5: " + _extra

for _pid, _extra in RULE_EXTRA6.items():
    PLAN[_pid]["rule"] = PLAN[_pid]["rule"] + " Round 6: " + _extra

for _pid, _extra in RULE_EXTRA7.items():
    PLAN[_pid]["rule"] = PLAN[_pid]["rule"] + " Round 7: " + _extra

for _pid, _extra in RULE_EXTRA8.items():
    PLAN[_pid]["rule"] = PLAN[_pid]["rule"] + " Round 8: " + _extra

for _pid, _extra in RULE_EXTRA9.items():
    PLAN[_pid]["rule"] = PLAN[_pid]["rule"] + " Round 9: " + _extra

for _pid, _extra in RULE_EXTRA10.items():
    PLAN[_pid]["rule"] = PLAN[_pid]["rule"] + " Round 10: " + _extra

RULE_EXTRA11 = {
    "C01": "Scenario D: a row built on its own whose item is mutated between Row.Add and AddRow, attached to a table that has look-only add-time cell callbacks on the table and on the column: the cell still shows the text read at NewCell.",
    "C03": "Custom decorations may also be derived from a finished built-in (by name or constructor): some glyphs changed, up to eight fields emptied, then Populate (which must leave no field empty).",
    "C07": "One script in five gets a near twin of one of its items in another cell (same descriptor; floating-point items with the sign turned, +0 and -0 included).",
    "C10": "Between two renders of a kept wrapper the foreign pass may also be a one-shot package-level texttable.RenderTo or markdown.RenderTo of the same table; a quarter of the headings hold mutable items (changed in place, then Update on the header cell); near-twin items as in C07.",
    "C11": "Row error steps also call Row.AddError(nil), Row.AddErrorList with nil entries around and between one to three errors, and Row.AddErrorList(nil / empty), on rows before and after they join the table; macro 'ownrow' (row made on its own, told 0-2 times while detached, attached, told again); one registration in about six is a table-owned add-time callback that adds one more row to the same table (at most twice, never from within itself) before it reports its own error.",
    "C13": "Step 'copyattached': a by-value copy of a cell that already lives in an attached row is added to another (or the same) row, pending or attached - a new cell like any other for every add-time callback; in half of these a render callback is first registered on the original and another on the free-standing copy (each must fire on its own cell only, the copy also keeps what the original owned when it was copied).",
    "C15": "Job 'cross' has a fourth fixed table (columns skipable by their own setting and by the column-0 default, rows with empty cells in front, in the middle and at the end) and one table of about 1900 rows (past 32 KiB) under csv, html, json and markdown with a sample of 50 write indices.",
    "C16": "Job 'widen': 400 rounds of four goroutines released together, each rendering a text table of its own whose widest cell is wider than anything the process has drawn so far (60 to about 2060 cells), then every width rendered alone; each output must be a rectangle holding its own text (an oracle independent of what the process rendered before).",
    "C19": "Subject 'near': a near miss of an existing decoration name (hyphens to underscores and back, hyphens dropped or turned into blanks, last character dropped, a hyphen appended), bare, texttable.-prefixed or with a trailing section - known only if exactly that was registered; one registered decoration in about eight is half-made (one to three template fields, never populated): it is listed, so it must render without error and SetDecorationNamed must accept it.",
}

for _pid, _extra in RULE_EXTRA11.items():
    PLAN[_pid]["rule"] = PLAN[_pid]["rule"] + " Round 11: " + _extra
