#!/bin/bash
# seedtest.sh <patch.diff> <tier> <ID> [<ID>...]
# Applies a breaking change to a scratch worktree of /repo (outside /repo and /verif),
# confirms the existing suite still passes there, runs the named checks against it
# (expecting VIOLATION), and removes the worktree.  Exit 0 iff at least one check reported a violation.
patch=$(readlink -f "$1"); tier=$2; shift 2
here=$(cd "$(dirname "$0")" && pwd)
export GOFLAGS=-mod=mod GOPROXY=off GOSUMDB=off GOTOOLCHAIN=local
wt=$(mktemp -d /tmp/mutwt.XXXXXX); rmdir "$wt"
git -C /repo worktree add --detach "$wt" HEAD >/dev/null 2>&1 || { echo "worktree failed"; exit 3; }
trap 'git -C /repo worktree remove --force "$wt" >/dev/null 2>&1; rm -rf "$wt"' EXIT
if ! git -C "$wt" apply "$patch"; then echo "PATCH-DOES-NOT-APPLY"; exit 3; fi
if ! (cd "$wt" && go build ./... ) ; then echo "MUTANT-DOES-NOT-BUILD"; exit 3; fi
suite=$(cd "$wt" && go test -vet=off -count=1 ./... 2>&1)
if echo "$suite" | grep -q -E '^(FAIL|--- FAIL|panic:)'; then echo "SUITE-FAILS-ON-MUTANT"; echo "$suite" | grep -E '^(FAIL|--- FAIL)' | head; exit 4; fi
echo "suite passes on mutant"
caught=1
for id in "$@"; do
  out=$(cd "$here" && VERIF_REPO_DIR="$wt" ./check "$id" "$tier" 2>&1); rc=$?
  echo "$out" | grep -E "VIOLATION|INCONCLUSIVE|evaluations" | cut -c1-400 | head -6
  echo "== $id $tier exit=$rc"
  [ $rc -eq 1 ] && caught=0
done
exit $caught
