#!/usr/bin/env python3
"""save_replay.py <failure.json> <ID> <name> <note>: copy a shrunk failing case into the committed regression tier."""
import json, os, sys
src, pid, name, note = sys.argv[1:5]
d = json.load(open(src))
d["violation"] = d["violation"].split("\n")[0][:300] + " — " + note
os.makedirs("/verif/replay/%s" % pid, exist_ok=True)
json.dump(d, open("/verif/replay/%s/%s.json" % (pid, name), "w"), indent=1, ensure_ascii=False)
print("saved", "/verif/replay/%s/%s.json" % (pid, name), json.dumps(d["case"])[:300])
