#!/bin/bash
# seedkeep.sh <ID> <n> "<what it needs to manifest>"
# Confirms a sub-agent's seeded change in a scratch worktree (suite passes with it; the demo fails
# with it and passes without it) and files it under /verif/seeded/<ID>-<n>/.
id=$1; n=$2; needs=$3
src=${SRC_DIR:-/tmp/seed/$id/OUT}   # SRC_DIR/PROP: for changes not filed under one property id
export GOFLAGS=-mod=mod GOPROXY=off GOSUMDB=off GOTOOLCHAIN=local
patch=$src/patch$n.diff; demo=$src/demo${n}_test.go
[ -f "$patch" ] && [ -f "$demo" ] || { echo "missing files"; exit 3; }
place=$(head -1 "$demo" | sed -n 's#^// place in: *##p' | tr -d ' \r')
[ -n "$place" ] || place=.
wt=$(mktemp -d /tmp/keepwt.XXXXXX); rmdir "$wt"
git -C /repo worktree add --detach "$wt" HEAD >/dev/null 2>&1 || exit 3
trap 'git -C /repo worktree remove --force "$wt" >/dev/null 2>&1; rm -rf "$wt"' EXIT
mkdir -p "$wt/$place"; cp "$demo" "$wt/$place/zz_seed_demo_test.go"
clean=$(cd "$wt" && go test -vet=off -count=1 -run 'TestSeedDemo|TestAdvDemo' ./$place 2>&1); crc=$?
git -C "$wt" apply "$patch" || { echo "patch does not apply"; exit 3; }
(cd "$wt" && go build ./... && go vet ./... >/dev/null 2>&1) || { echo "build/vet fails"; exit 3; }
mut=$(cd "$wt" && go test -vet=off -count=1 -run 'TestSeedDemo|TestAdvDemo' ./$place 2>&1); mrc=$?
rm "$wt/$place/zz_seed_demo_test.go"
suite=$(cd "$wt" && go test -vet=off -count=1 ./... 2>&1); src_rc=$?
echo "demo on clean HEAD rc=$crc; demo with patch rc=$mrc; suite with patch rc=$src_rc"
if [ $crc -ne 0 ] || [ $mrc -eq 0 ] || [ $src_rc -ne 0 ]; then echo "NOT CONFIRMED"; echo "$clean" | tail -5; echo "$mut" | tail -5; echo "$suite" | grep -v '^ok' | tail; exit 4; fi
dst=/verif/seeded/$id-$n; mkdir -p "$dst"
cp "$patch" "$dst/patch.diff"; cp "$demo" "$dst/demo_test.go"; [ -f $src/notes$n.md ] && cp $src/notes$n.md "$dst/notes.md"
python3 - "${PROP:-$id}" "$n" "$needs" "$place" "$(git -C /repo rev-parse --short HEAD)" > "$dst/meta.json" <<'PY'
import json,sys
id,n,needs,place,head=sys.argv[1:6]
print(json.dumps({
 "property": id, "seed": int(n), "base_commit": head,
 "breaks": "property %s (see notes.md for the clause)" % id,
 "needs_to_manifest": needs,
 "demo_placement": place,
 "confirmed_by": ["scratch worktree of /repo HEAD under /tmp (removed afterwards)",
   "demo passes on clean HEAD: go test -run TestSeedDemo ./%s" % place,
   "git apply patch.diff; go build ./... && go vet ./... clean",
   "demo FAILS with the patch",
   "existing suite unedited passes with the patch: go test -vet=off -count=1 ./..."],
 "author": "independent sub-agent given only the property text and its own worktree",
}, indent=1))
PY
echo "kept $dst"
