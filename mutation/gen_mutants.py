#!/usr/bin/env python3
"""Systematic first-order mutants of the library source (sensitivity analysis of the checks).

usage: gen_mutants.py <repo dir> <out dir>
Writes one unified diff per mutant (m0001.diff ...) plus index.tsv (id, file, line, operator, before, after).
Operators are purely syntactic and line-local; mutants that do not compile or that the existing suite
kills are discarded by the runner, not here."""
import os, re, sys, subprocess, difflib

repo, out = sys.argv[1], sys.argv[2]
os.makedirs(out, exist_ok=True)
SKIP = {"pretty.go", "version.go", "doc.go"}
files = []
for root, dirs, fs in os.walk(repo):
    if ".git" in root or "/examples" in root or "/OUT" in root:
        continue
    for f in fs:
        if f.endswith(".go") and not f.endswith("_test.go") and f not in SKIP:
            files.append(os.path.join(root, f))
files.sort()

OPS = [
    ("rel", r"(?<![<>=!])<(?![<=-])", "<="),
    ("rel", r"(?<![<>=!-])>(?![>=])", ">="),
    ("rel", r"<=", "<"),
    ("rel", r">=", ">"),
    ("eq", r"==", "!="),
    ("eq", r"!=", "=="),
    ("logic", r"&&", "||"),
    ("logic", r"\|\|", "&&"),
    ("arith", r"\+ 1\b", "+ 0"),
    ("arith", r"- 1\b", "- 0"),
    ("arith", r"\+ 2\b", "+ 1"),
    ("arith", r"(?<![+])\+(?![+=])", "-"),
    ("arith", r"/ 2\b", "/ 3"),
    ("const", r"\btrue\b", "false"),
    ("const", r"\bfalse\b", "true"),
    ("const", r"\b0\b", "1"),
    ("const", r"\b1\b", "0"),
    ("const", r'""', '"x"'),
    ("ret", r"return err\b", "return nil"),
    ("cont", r"\bcontinue\b", "break"),
    ("cont", r"\bbreak\b", "continue"),
]

def code_part(line):
    # split off a trailing // comment (naive: not inside a string literal containing //)
    in_s = None
    i = 0
    while i < len(line):
        c = line[i]
        if in_s:
            if c == "\\":
                i += 2
                continue
            if c == in_s:
                in_s = None
        elif c in "\"'`":
            in_s = c
        elif line.startswith("//", i):
            return line[:i], line[i:]
        i += 1
    return line, ""

def strip_strings(code):
    # positions inside string/rune literals are not mutated (except the "" operator, handled separately)
    mask = [False] * len(code)
    in_s = None
    i = 0
    while i < len(code):
        c = code[i]
        if in_s:
            mask[i] = True
            if c == "\\" and in_s != "`":
                if i + 1 < len(code):
                    mask[i + 1] = True
                i += 2
                continue
            if c == in_s:
                in_s = None
        elif c in "\"'`":
            in_s = c
            mask[i] = True
        i += 1
    return mask

n = 0
index = []
for path in files:
    rel = os.path.relpath(path, repo)
    src = open(path).read().split("\n")
    in_block_comment = False
    in_raw = False
    for ln, line in enumerate(src):
        s = line.strip()
        if in_block_comment:
            if "*/" in line:
                in_block_comment = False
            continue
        if s.startswith("/*"):
            if "*/" not in s:
                in_block_comment = True
            continue
        if in_raw:
            if "`" in line:
                in_raw = False
            continue
        if line.count("`") % 2 == 1:
            in_raw = True
            continue
        if not s or s.startswith("//") or s.startswith("import") or s.startswith("package") or s.startswith('"'):
            continue
        code, comment = code_part(line)
        mask = strip_strings(code)
        cands = []
        for name, pat, repl in OPS:
            for m in re.finditer(pat, code):
                if name != "const" or pat != r'""':
                    if any(mask[m.start():m.end()]):
                        continue
                new = code[:m.start()] + repl + code[m.end():]
                cands.append((name, new))
        # statement deletion: simple assignments, calls, increments (not declarations, not control flow)
        if re.match(r"^\s+[A-Za-z_][\w\.\[\]\*&()]*\s*(=|\+=|-=|\+\+|--)", code) and ":=" not in code and not s.endswith("{"):
            cands.append(("delstmt", re.match(r"^\s*", code).group(0) + "_ = 0"))
        if re.match(r"^\s+[A-Za-z_][\w\.]*\([^)]*\)\s*$", code) and not s.startswith(("return", "go ", "defer", "panic")):
            cands.append(("delcall", re.match(r"^\s*", code).group(0) + "_ = 0"))
        for name, new in cands:
            if new == code:
                continue
            mutated = list(src)
            mutated[ln] = new + comment
            diff = "".join(difflib.unified_diff([l + "\n" for l in src], [l + "\n" for l in mutated], "a/" + rel, "b/" + rel, n=2))
            n += 1
            mid = "m%04d" % n
            open(os.path.join(out, mid + ".diff"), "w").write(diff)
            index.append("\t".join([mid, rel, str(ln + 1), name, code.strip()[:90], new.strip()[:90]]))
open(os.path.join(out, "index.tsv"), "w").write("\n".join(index) + "\n")
print(n, "mutants over", len(files), "files")
