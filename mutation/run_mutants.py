#!/usr/bin/env python3
"""Runs every syntactic mutant (gen_mutants.py) through: build -> existing suite -> the property checks.

usage: run_mutants.py <mutants dir> <results.tsv> [workers] [first] [last]
status per mutant: nobuild | suite (killed by the existing suite) | <ID> (first check that reports a VIOLATION) | survived
Each worker owns a scratch worktree of /repo under /tmp (removed at the end) and a VERIF_SEED of its own."""
import os, sys, subprocess, glob, json, time
from multiprocessing import Pool

HERE = os.path.dirname(os.path.dirname(os.path.abspath(__file__)))
mdir, results = sys.argv[1], sys.argv[2]
workers = int(sys.argv[3]) if len(sys.argv) > 3 else 4
first = int(sys.argv[4]) if len(sys.argv) > 4 else 1
last = int(sys.argv[5]) if len(sys.argv) > 5 else 10 ** 9
ENV = dict(os.environ, GOFLAGS="-mod=mod", GOPROXY="off", GOSUMDB="off", GOTOOLCHAIN="local")
ALL = ["C%02d" % i for i in range(1, 20)]
REL = [
    ("texttable/decoration/registry.go", "C17 C19 C16"),
    ("texttable/decoration/", "C03 C04 C17 C19 C10"),
    ("texttable/", "C03 C04 C15 C09 C17 C10 C14 C18"),
    ("length/", "C18 C03 C04 C08"),
    ("csv/", "C05 C15 C09 C10 C01"),
    ("json/", "C07 C15 C09 C10"),
    ("markdown/", "C08 C15 C09 C10 C14"),
    ("html/", "C06 C15 C16 C09 C10"),
    ("auto/", "C19 C10 C09"),
    ("properties/", "C04 C07 C08"),
    ("cell.go", "C01 C18 C04 C12 C02"),
    ("atable.go", "C02 C13 C11 C12 C09"),
    ("row.go", "C02 C11 C13"),
    ("properties.go", "C12 C13 C11 C10 C14"),
    ("render_callbacks.go", "C13 C11"),
    ("error_containers.go", "C11"),
    ("location.go", "C02"),
]


def order_for(path):
    for pre, ids in REL:
        if path.startswith(pre) or path == pre:
            lst = ids.split()
            return lst + [x for x in ALL if x not in lst]
    return ALL


def sh(cmd, cwd, env=ENV, timeout=1800):
    try:
        p = subprocess.run(cmd, cwd=cwd, env=env, stdout=subprocess.PIPE, stderr=subprocess.STDOUT, text=True, timeout=timeout)
        return p.returncode, p.stdout
    except subprocess.TimeoutExpired:
        return -9, "timeout"


def work(args):
    wid, items = args
    wt = "/tmp/mutwork-%d-%d" % (os.getpid(), wid)
    sh(["git", "-C", "/repo", "worktree", "add", "--detach", wt, "HEAD"], "/")
    out = []
    env = dict(ENV, VERIF_REPO_DIR=wt, VERIF_SEED=str(100 + wid))
    try:
        for mid, path in items:
            sh(["git", "checkout", "--", "."], wt)
            rc, _ = sh(["git", "apply", os.path.join(mdir, mid + ".diff")], wt)
            if rc != 0:
                out.append((mid, "noapply", 0)); continue
            rc, _ = sh(["go", "build", "./..."], wt)
            if rc != 0:
                out.append((mid, "nobuild", 0)); continue
            rc, o = sh(["go", "test", "-vet=off", "-count=1", "./..."], wt, timeout=300)
            if rc != 0:
                out.append((mid, "suite", 0)); continue
            status, tried = "survived", 0
            for pid in order_for(path):
                tried += 1
                rc, o = sh(["./check", pid, "quick"], HERE, env=env, timeout=1200)
                if rc == 1 and "VIOLATION" in o:
                    status = pid
                    break
            out.append((mid, status, tried))
            with open(results + ".partial-%d" % wid, "a") as f:
                f.write("%s\t%s\t%d\n" % (mid, status, tried))
    finally:
        sh(["git", "-C", "/repo", "worktree", "remove", "--force", wt], "/")
    return out


if __name__ == "__main__":
    idx = [l.rstrip("\n").split("\t") for l in open(os.path.join(mdir, "index.tsv"))]
    items = [(r[0], r[1]) for r in idx if first <= int(r[0][1:]) <= last]
    chunks = [(w, items[w::workers]) for w in range(workers)]
    t0 = time.time()
    with Pool(workers) as pool:
        res = [x for part in pool.map(work, chunks) for x in part]
    res.sort()
    info = {r[0]: r for r in idx}
    with open(results, "w") as f:
        for mid, status, tried in res:
            r = info[mid]
            f.write("\t".join([mid, status, str(tried)] + r[1:]) + "\n")
    from collections import Counter
    c = Counter(s if s in ("nobuild", "noapply", "suite", "survived") else "check" for _, s, _ in res)
    print("mutants", len(res), dict(c), "wall %.0fs" % (time.time() - t0))
