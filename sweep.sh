#!/bin/bash
# sweep.sh <tier> <seed>... : soundness sweep - every check at several VERIF_SEED values on the unchanged tree; all must exit 0.
# (writes the committed evidence files as a side effect: re-run ./runall.sh with the default seed before committing evidence)
tier=$1; shift
cd "$(dirname "$0")"
bad=0
for seed in "$@"; do
  for id in $(python3 -c "import plan; print(' '.join(plan.PLAN))"); do
    out=$(VERIF_SEED=$seed ./check $id $tier 2>&1); rc=$?
    if [ $rc -ne 0 ]; then echo "seed=$seed $id rc=$rc"; echo "$out" | grep -E "VIOLATION|INCONCLUSIVE" | head -5; bad=1; fi
  done
  echo "seed=$seed done"
done
exit $bad
