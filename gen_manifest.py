#!/usr/bin/env python3
"""Regenerates MANIFEST.json from plan.py (single source of truth for what is claimed)."""
import json, os, subprocess
from plan import PLAN, NOT_APPLICABLE

here = os.path.dirname(os.path.abspath(__file__))
ids = [json.loads(l)["id"] for l in open(os.path.join(here, "properties.jsonl"))]
fix_commits = subprocess.run(["git", "-C", "/repo", "log", "--format=%h %s", "c1f3764..HEAD"], stdout=subprocess.PIPE, text=True).stdout.strip().splitlines()
checks = []
for pid in ids:
    if pid not in PLAN:
        continue
    p = PLAN[pid]
    checks.append({
        "property_id": pid,
        "quick_cmd": "./check %s quick" % pid,
        "thorough_cmd": "./check %s thorough" % pid,
        "evidence_file": "/verif/evidence/%s.json" % pid,
        "replay_cmd_template": "./check %s --replay {path}" % pid,
        "engine": "harness",
        "level_claimed": {"category": p.get("level", "exploration"), "text": p["level_text"], "design_ref": p.get("design_ref", "DESIGN.md §4 " + pid)},
        "level_note": p["level_note"],
        "technique": p["technique"],
    })
na = [{"property_id": pid, "reason": NOT_APPLICABLE.get(pid, "check not built yet in this session (work in progress); the technique applies")} for pid in ids if pid not in PLAN]
m = {
    "version": 1,
    "setup_cmd": "./setup.sh",
    "hooks": {
        "guard": "verif",
        "enable": "go test -tags verif (the harness builds /repo with the tag set; no source file under /repo carries the tag: every observation point is public API, so no hooks were needed)",
        "baseline_off_cmd": "cd /repo && GOFLAGS=-mod=mod GOPROXY=off GOSUMDB=off GOTOOLCHAIN=local go test -vet=off -count=1 ./...",
        "source_commits": [],
        "add_only": True,
    },
    "engines": [{
        "name": "harness",
        "path": "/verif/harness",
        "serves_properties": [c["property_id"] for c in checks],
        "kind_free_text": "Go module (replace go.pennock.tech/tabular => /repo): rapid v1.3.0 generators with shrinking, bounded exhaustive enumerators, native go fuzz targets, race-detector builds and porcupine linearizability checks, all driving pure CheckCase(case) oracles over JSON-serialisable cases; python3 driver ./check shards, merges evidence and maps outcomes to exit codes",
    }],
    "checks": checks,
    "not_applicable": na,
    "notes": ("Repairs of genuine defects in /repo are unguarded 'fix:' commits (listed in known_findings.txt as fixed: lines): "
              + "; ".join(fix_commits)),
}
json.dump(m, open(os.path.join(here, "MANIFEST.json"), "w"), indent=1, ensure_ascii=False)
print("MANIFEST.json: %d checks, %d not_applicable" % (len(checks), len(na)))
