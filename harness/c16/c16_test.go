package c16

import (
	"os"
	"testing"

	"pgregory.net/rapid"

	"verif/harness/internal/ev"
	"verif/harness/internal/gen"
	"verif/harness/internal/h"
)

var prop = h.Prop[Case]{ID: ID, Check: CheckCase, Classify: Classify}

func TestMain(m *testing.M) { os.Exit(ev.Main(ID, m)) }

func TestReplay(t *testing.T) { prop.Replay(t, nil) }

func caseGen() *rapid.Generator[Case] {
	maxW := 8
	if h.Thorough() {
		maxW = 16
	}
	key := rapid.Custom(func(t *rapid.T) gen.Item {
		return gen.S(gen.StringOf([]string{"k", "h1", "h2", "h3", "name", "a-long-header-text", "x y"}, 1, 2).Draw(t, "key"))
	})
	// texts shared by the tables of different goroutines (state keyed by cell text would collide), as plain
	// strings in one table and as items declaring another width or height in the next
	shared := []string{"\u2713", "\u00e9t\u00e9", "\u6f22\u5b57", "ok", "a\nb", "\u2713 done", "n/a", "\U0001f469\u200d\U0001f4bb",
		"say \"hi\"", "a\"b", "<b>&amp;</b>", "x|y", "back\\slash", "it's"} // texts every format has to escape somehow
	item := rapid.Custom(func(t *rapid.T) gen.Item {
		switch rapid.IntRange(0, 9).Draw(t, "shared") {
		case 0, 1, 2:
			return gen.S(rapid.SampledFrom(shared).Draw(t, "text"))
		case 3:
			return gen.Item{K: "if", M: gen.MString | gen.MWidth, S: gen.Str(rapid.SampledFrom(shared[:4]).Draw(t, "text")), W: rapid.IntRange(0, 9).Draw(t, "w")}
		case 4:
			return gen.Item{K: "if", M: gen.MError | gen.MHeight, E: gen.Str(rapid.SampledFrom(shared).Draw(t, "text")), H: rapid.IntRange(0, 4).Draw(t, "h"), P: true}
		case 5:
			return gen.Item{K: "f64", FS: rapid.SampledFrom([]string{"nan", "+inf", "", ""}).Draw(t, "fs"), N: 6}
		}
		if rapid.IntRange(0, 4).Draw(t, "mixed") == 0 {
			return gen.NoAddressText(gen.AnyItem(gen.TokWidth, 1).Draw(t, "any"))
		}
		return gen.S(gen.StringOf(append([]string{"wide wide wide wide", "a\nb", "\"", "\"", "<", "&", "|", "\\", "'"}, gen.TokWidth...), 0, 4).Draw(t, "s"))
	})
	sg := gen.ScriptGen(gen.ScriptOpts{Item: item, HdrItem: key, MinOps: 1, MaxOps: 7, MaxCells: 3, HdrCells: [2]int{2, 4}, ForceHdr: true,
		Creators: []string{"core", "core", "csv", "html", "texttable", "markdown", "json", "auto:utf8-light"}})
	return rapid.Custom(func(t *rapid.T) Case {
		n := rapid.IntRange(2, maxW).Draw(t, "goroutines")
		palette := rapid.SliceOfN(rapid.SampledFrom(Styles), 1, 3).Draw(t, "palette")
		c := Case{Registry: rapid.Bool().Draw(t, "registry"), Reps: 3}
		if rapid.IntRange(0, 2).Draw(t, "proto?") == 0 {
			c.Proto = rapid.IntRange(1, 9).Draw(t, "proto")
		}
		c.Barrier = rapid.Bool().Draw(t, "barrier")
		c.PreReg = rapid.IntRange(0, 8).Draw(t, "prereg")
		for i := 0; i < n; i++ {
			w := Worker{Script: sg.Draw(t, "script"), Reuse: rapid.Bool().Draw(t, "reuse"), List: rapid.IntRange(0, 2).Draw(t, "list") == 0}
			for j, k := 0, rapid.IntRange(1, 4).Draw(t, "renders"); j < k; j++ {
				w.Renders = append(w.Renders, rapid.SampledFrom(palette).Draw(t, "style"))
				f := 0
				if rapid.IntRange(0, 5).Draw(t, "fault?") == 0 {
					f = 1 + rapid.IntRange(0, 6).Draw(t, "fault")
				}
				w.Faults = append(w.Faults, f)
			}
			// distinct header texts so JSON renders
			for _, op := range w.Script.Ops {
				if op.K == "hdr" {
					for x := range op.Items {
						op.Items[x].S += gen.Str(string(rune('A' + x)))
					}
				}
			}
			if gen.Rarely(t, "tall", 10) {
				w.Tall = rapid.SampledFrom([]int{260, 300, 520}).Draw(t, "tall-rows")
			}
			if rapid.IntRange(0, 3).Draw(t, "customdeco") == 0 {
				d := gen.DecoGen().Draw(t, "deco")
				w.Deco = &d
			}
			c.Workers = append(c.Workers, w)
		}
		return c
	})
}

func TestProp(t *testing.T) { prop.Rapid(t, caseGen()) }

// TestSizes walks the registry through every size from the built-ins alone to 40 names (one more application
// decoration per step) and at each size lets goroutines take the listings and render while others read the registry.
func TestSizes(t *testing.T) {
	s := gen.S
	script := gen.Script{Ops: []gen.Op{{K: "hdr", Items: []gen.Item{s("k"), s("value")}}, {K: "rowitems", Items: []gen.Item{s("a"), s("b\nc")}}}}
	for n := 0; n <= 34; n++ {
		c := Case{Registry: true, Reps: 2, PreReg: n, Barrier: n%2 == 0, Proto: n % 10}
		for i := 0; i < 4; i++ {
			c.Workers = append(c.Workers, Worker{Script: script, Renders: []string{Styles[(n+i)%len(Styles)], "utf8-light"}, List: true, Tall: map[bool]int{true: 300}[n%8 == 3 && i == 0]})
		}
		if v := prop.Eval(c); v != nil {
			t.Fatalf("VIOLATION %s", ID)
		}
	}
	ev.R().Sub(ev.SubRun{Name: "registry-sizes", Bound: "registry sizes 6..40 in order, 4 goroutines taking the listings and rendering plus a registry reader at each size", Cases: 35, Exhaustive: true})
}

// TestWiden: goroutines that are released together render tables of their own, each wider than anything the
// process has drawn so far, round after round; each output is judged on its own (a rectangle holding its own text).
func TestWiden(t *testing.T) {
	var n int64
	for _, c := range []Case{{Widen: 400, WidenFrom: 60, WidenStep: 5}} {
		n += int64(c.Widen)
		if v := prop.Eval(c); v != nil {
			t.Fatalf("VIOLATION %s", ID)
		}
	}
	ev.R().Sub(ev.SubRun{Name: "widening", Bound: "400 rounds of 4 goroutines released together, widest cell growing from 60 to about 2060 cells, then every width rendered alone", Cases: n, Exhaustive: false})
}
