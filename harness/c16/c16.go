// Package c16: independent tables can be built and rendered concurrently.
package c16

import (
	"bytes"
	"fmt"
	"os"
	"runtime"
	"strings"
	"sync"
	"sync/atomic"

	"go.pennock.tech/tabular"
	"go.pennock.tech/tabular/auto"
	"go.pennock.tech/tabular/properties/align"
	"go.pennock.tech/tabular/texttable"
	"go.pennock.tech/tabular/texttable/decoration"

	"verif/harness/internal/ev"
	"verif/harness/internal/gen"
)

const ID = "C16"

var Styles = []string{"csv", "html", "json", "markdown", "ascii-simple", "none", "utf8-light", "utf8-light-curved", "utf8-heavy", "utf8-double", "texttable"}

// Worker is one goroutine's program: build its own table, then render it in each style.
type Worker struct {
	Script  gen.Script `json:"script"`
	Renders []string   `json:"renders"`
	Reuse   bool       `json:"reuse,omitempty"` // one wrapper per style reused for repeated renders (else fresh wrappers)
	// Faults[i] > 0: before render i the same wrapper renders into a writer whose write number Faults[i]-1 fails
	// (the rest succeed): whatever that leaves behind must not reach this or any other goroutine's output.
	Faults []int `json:"faults,omitempty"`
	// Deco, if set, is a custom decoration this goroutine builds (Populate) and renders its table with, last
	Deco *gen.DecoSpec `json:"deco,omitempty"`
	// List: the goroutine first takes the style listing and the registered decoration names (part of its results)
	List bool `json:"list,omitempty"`
	// Tall > 0: that many plain rows are added on top, and a render-time cell callback with plain (unsynchronised)
	// state of its own counts the cells it is handed: it belongs to this goroutine's table and to nobody else
	Tall int `json:"tall,omitempty"`
}

// counting is a callback with state of its own.
type counting struct{ n *int }

func (c counting) UpdateProperties(tabular.PropertyOwner) error { *c.n++; return nil }

// protoTag is the stateless callback every copy of the prototype cell carries.
type protoTag struct{ n int }

type protoKey struct{ n int }

func (p protoTag) UpdateProperties(po tabular.PropertyOwner) error {
	return po.SetProperty(protoKey{p.n}, "tagged")
}

// aligner belongs to one goroutine's table: when its cell is rendered it sets the alignment of a column of that table.
type aligner struct {
	t   tabular.Table
	how align.Alignment
}

func (a aligner) UpdateProperties(tabular.PropertyOwner) error {
	return a.t.Column(1).SetProperty(align.PropertyType, a.how)
}

// ensureRegistered makes the registry hold at least n application decorations (process-wide, never shrinks).
func ensureRegistered(n int) {
	d := decoration.Named("utf8-light")
	for k := 0; k < n; k++ {
		name := fmt.Sprintf("c16-extra-%02d", k)
		if decoration.Named(name) == decoration.EmptyDecoration {
			decoration.RegisterDecorationName(name, d)
		}
	}
}

type failOnce struct {
	k, calls int
}

func (w *failOnce) Write(p []byte) (int, error) {
	runtime.Gosched()
	i := w.calls
	w.calls++
	if i == w.k {
		return len(p) / 2, fmt.Errorf("injected write failure")
	}
	return len(p), nil
}

type Case struct {
	Workers  []Worker `json:"workers"`
	Registry bool     `json:"registry,omitempty"` // an extra goroutine reads the decoration registry and the style listing meanwhile
	Reps     int      `json:"reps,omitempty"`
	// Proto > 0: a prototype cell carrying that many render callbacks is made first; every goroutine adds a by-value
	// copy of it to its own table and registers one more callback on its own copy
	Proto int `json:"proto,omitempty"`
	// Barrier: the goroutines wait for each other between building and rendering
	Barrier bool `json:"barrier,omitempty"`
	// PreReg: the application has registered that many decorations of its own before any goroutine starts
	PreReg int `json:"prereg,omitempty"`
	// Widen > 0 (no Workers): that many rounds; in each round four goroutines, released together, each render a table of
	// their own whose widest cell is wider than any the process has drawn so far (WidenFrom + round*WidenStep cells);
	// every output must be a rectangle - an oracle that does not depend on what the process rendered earlier
	Widen     int `json:"widen,omitempty"`
	WidenFrom int `json:"widen_from,omitempty"`
	WidenStep int `json:"widen_step,omitempty"`
}

func checkWiden(c Case) *ev.Violation {
	for round := 0; round < c.Widen; round++ {
		width := c.WidenFrom + round*c.WidenStep
		const g = 4
		outs := make([]string, g)
		errs := make([]error, g)
		var ready, done sync.WaitGroup
		var gate int32
		ready.Add(g)
		done.Add(g)
		for i := 0; i < g; i++ {
			go func(i int) {
				defer done.Done()
				t := texttable.New()
				t.AddRowItems(strings.Repeat("w", width+i))
				t.AddRowItems("x")
				ready.Done()
				for atomic.LoadInt32(&gate) == 0 {
				}
				outs[i], errs[i] = t.Render()
			}(i)
		}
		ready.Wait()
		atomic.StoreInt32(&gate, 1)
		done.Wait()
		for i := 0; i < g; i++ {
			if errs[i] != nil {
				return ev.V("round %d (width %d), goroutine %d: render failed: %v", round, width, i, errs[i])
			}
			lines := strings.Split(strings.TrimRight(outs[i], "\n"), "\n")
			first := len([]rune(lines[0]))
			for n, l := range lines {
				if len([]rune(l)) != first {
					return ev.V("round %d (widest cell %d), goroutine %d: line %d of its table is %d characters wide, the first line %d: not a rectangle (ASCII content, one-cell glyphs)", round, width+i, i, n, len([]rune(l)), first)
				}
			}
			if !strings.Contains(outs[i], strings.Repeat("w", width+i)) {
				return ev.V("round %d, goroutine %d: its widest cell is not in its own output", round, i)
			}
		}
	}
	// and nothing lingers: every width up to the widest, rendered alone afterwards
	for width := 1; width < c.WidenFrom+c.Widen*c.WidenStep+8; width++ {
		t := texttable.New()
		t.AddRowItems(strings.Repeat("w", width))
		t.AddRowItems("x")
		out, err := t.Render()
		if err != nil {
			return ev.V("after the concurrent rounds, width %d rendered alone: %v", width, err)
		}
		lines := strings.Split(strings.TrimRight(out, "\n"), "\n")
		for n, l := range lines {
			if len([]rune(l)) != len([]rune(lines[0])) {
				return ev.V("after the concurrent rounds, a table with a widest cell of %d rendered alone: line %d is %d characters wide, the first line %d", width, n, len([]rune(l)), len([]rune(lines[0])))
			}
		}
	}
	return nil
}

// yieldWriter hands the processor over at every Write so that renders interleave.
type yieldWriter struct {
	buf bytes.Buffer
}

func (w *yieldWriter) Write(p []byte) (int, error) {
	runtime.Gosched()
	n, err := w.buf.Write(p)
	runtime.Gosched()
	return n, err
}

type result struct {
	out string
	err string
}

func run(wk Worker, idx int, proto *tabular.Cell, mid func(), yield bool) []result {
	var listing result
	if wk.List {
		listing.out = strings.Join(auto.ListStyles(), ",") + "|" + strings.Join(decoration.RegisteredDecorationNames(), ",")
	}
	t, _ := gen.Build(wk.Script)
	if proto != nil {
		r := tabular.NewRow()
		r.Add(*proto)
		r.Add(tabular.NewCell(fmt.Sprintf("v%d", idx)))
		t.AddRow(r)
		cells := r.Cells()
		how := []align.Alignment{align.Right, align.Center, align.Left}[idx%3]
		if err := t.RegisterPropertyCallback(&cells[0], tabular.CB_AT_RENDER, tabular.CB_ON_ITSELF, aligner{t, how}); err != nil {
			panic(err)
		}
	}
	if wk.Tall > 0 {
		for i := 0; i < wk.Tall; i++ {
			t.AddRowItems(fmt.Sprintf("row %d", i), "x")
		}
		n := 0
		t.RegisterPropertyCallback(t, tabular.CB_AT_RENDER, tabular.CB_ON_CELL, counting{&n})
		t.RegisterPropertyCallback(t.Column(1), tabular.CB_AT_RENDER_PRECELL, tabular.CB_ON_CELL, counting{&n})
	}
	if mid != nil {
		mid()
	}
	long := map[string]auto.RenderTable{}
	res := make([]result, len(wk.Renders))
	for i, st := range wk.Renders {
		var rw auto.RenderTable
		if wk.Reuse {
			if long[st] == nil {
				long[st] = auto.Wrap(t, st)
			}
			rw = long[st]
		} else {
			rw = auto.Wrap(t, st)
		}
		if i < len(wk.Faults) && wk.Faults[i] > 0 {
			rw.RenderTo(&failOnce{k: wk.Faults[i] - 1})
		}
		var err error
		if yield {
			var w yieldWriter
			err = rw.RenderTo(&w)
			res[i].out = w.buf.String()
		} else {
			res[i].out, err = rw.Render()
		}
		if err != nil {
			res[i] = result{err: "error"}
		}
	}
	if wk.Deco != nil {
		d, _ := wk.Deco.Make()
		tt := texttable.Wrap(t)
		tt.SetDecoration(d)
		var r result
		var err error
		if yield {
			var w yieldWriter
			err = tt.RenderTo(&w)
			r.out = w.buf.String()
		} else {
			r.out, err = tt.Render()
		}
		if err != nil {
			r = result{err: "error"}
		}
		res = append(res, r)
	}
	if wk.List {
		res = append(res, listing)
	}
	return res
}

func CheckCase(c Case) *ev.Violation {
	// a process-killing failure (race detector with halt_on_error, concurrent map access) must still leave a replay file
	if p := os.Getenv("VERIF_FAIL_OUT"); p != "" {
		ev.WriteCase(p+".running", ID, c, "the process died while this case was running (data race reported by the Go race detector, or a fatal runtime error)")
		defer os.Remove(p + ".running")
	}
	if c.Widen > 0 {
		return checkWiden(c)
	}
	ensureRegistered(c.PreReg)
	var proto *tabular.Cell
	if c.Proto > 0 {
		pc := tabular.NewCell("id")
		for k := 0; k < c.Proto; k++ {
			if err := tabular.New().RegisterPropertyCallback(&pc, tabular.CB_AT_RENDER, tabular.CB_ON_ITSELF, protoTag{k}); err != nil {
				return ev.V("registering a callback on a stand-alone cell failed: %v", err)
			}
		}
		proto = &pc
	}
	want := make([][]result, len(c.Workers))
	for i, wk := range c.Workers {
		want[i] = run(wk, i, proto, nil, false)
	}
	reps := c.Reps
	if reps < 1 {
		reps = 1
	}
	for rep := 0; rep < reps; rep++ {
		got := make([][]result, len(c.Workers))
		var wg sync.WaitGroup
		var stop int32
		var start sync.WaitGroup
		start.Add(1)
		var built sync.WaitGroup
		built.Add(len(c.Workers))
		var mid func()
		if c.Barrier {
			mid = func() { built.Done(); built.Wait() }
		}
		for i := range c.Workers {
			wg.Add(1)
			go func(i int) {
				defer wg.Done()
				start.Wait()
				got[i] = run(c.Workers[i], i, proto, mid, true)
			}(i)
		}
		var rg sync.WaitGroup
		if c.Registry {
			rg.Add(1)
			go func() {
				defer rg.Done()
				start.Wait()
				for atomic.LoadInt32(&stop) == 0 {
					_ = decoration.Named("utf8-light")
					_ = decoration.RegisteredDecorationNames()
					_ = auto.ListStyles()
					runtime.Gosched()
				}
			}()
		}
		start.Done()
		wg.Wait()
		atomic.StoreInt32(&stop, 1)
		rg.Wait()
		for i := range c.Workers {
			for j := range want[i] {
				if got[i][j] != want[i][j] {
					style := "custom decoration, or the listings"
					if j < len(c.Workers[i].Renders) {
						style = c.Workers[i].Renders[j]
					}
					return ev.V("repetition %d: goroutine %d render %d (%s) differs from the same table rendered alone\n--- concurrent\n%s%s\n--- alone\n%s%s",
						rep+1, i, j, style, got[i][j].err, got[i][j].out, want[i][j].err, want[i][j].out)
				}
			}
		}
	}
	return nil
}

func Classify(c Case) (bool, interface{}, []string) {
	if c.Widen > 0 {
		return true, nil, []string{"widening-tables-rendered-together"}
	}
	count := map[string]int{}
	for _, w := range c.Workers {
		seen := map[string]bool{}
		for _, s := range w.Renders {
			if !seen[s] {
				seen[s] = true
				count[s]++
			}
		}
	}
	nt := false
	var cl []string
	for s, n := range count {
		if n >= 2 {
			nt = true
			cl = append(cl, "shared-style-"+s)
		}
	}
	cl = append(cl, fmt.Sprintf("goroutines-%d", len(c.Workers)))
	if c.Registry {
		cl = append(cl, "registry-reader")
	}
	if c.Proto > 0 {
		cl = append(cl, "prototype-cell-with-callbacks-copied-into-every-table")
	}
	if c.Barrier {
		cl = append(cl, "barrier-between-build-and-render")
	}
	if c.PreReg > 0 {
		cl = append(cl, "application-decorations-registered-first")
	}
	for _, w := range c.Workers {
		if w.List {
			cl = append(cl, "goroutines-take-the-listings")
			break
		}
	}
	return nt, nil, cl
}
