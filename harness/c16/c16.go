// Package c16: independent tables can be built and rendered concurrently.
package c16

import (
	"bytes"
	"fmt"
	"os"
	"runtime"
	"sync"
	"sync/atomic"

	"go.pennock.tech/tabular/auto"
	"go.pennock.tech/tabular/texttable"
	"go.pennock.tech/tabular/texttable/decoration"

	"verif/harness/internal/ev"
	"verif/harness/internal/gen"
)

const ID = "C16"

var Styles = []string{"csv", "html", "json", "markdown", "ascii-simple", "none", "utf8-light", "utf8-light-curved", "utf8-heavy", "utf8-double", "texttable"}

// Worker is one goroutine's program: build its own table, then render it in each style.
type Worker struct {
	Script  gen.Script `json:"script"`
	Renders []string   `json:"renders"`
	Reuse   bool       `json:"reuse,omitempty"` // one wrapper per style reused for repeated renders (else fresh wrappers)
	// Faults[i] > 0: before render i the same wrapper renders into a writer whose write number Faults[i]-1 fails
	// (the rest succeed): whatever that leaves behind must not reach this or any other goroutine's output.
	Faults []int `json:"faults,omitempty"`
	// Deco, if set, is a custom decoration this goroutine builds (Populate) and renders its table with, last
	Deco *gen.DecoSpec `json:"deco,omitempty"`
}

type failOnce struct {
	k, calls int
}

func (w *failOnce) Write(p []byte) (int, error) {
	runtime.Gosched()
	i := w.calls
	w.calls++
	if i == w.k {
		return len(p) / 2, fmt.Errorf("injected write failure")
	}
	return len(p), nil
}

type Case struct {
	Workers  []Worker `json:"workers"`
	Registry bool     `json:"registry,omitempty"` // an extra goroutine reads the decoration registry and the style listing meanwhile
	Reps     int      `json:"reps,omitempty"`
}

// yieldWriter hands the processor over at every Write so that renders interleave.
type yieldWriter struct {
	buf bytes.Buffer
}

func (w *yieldWriter) Write(p []byte) (int, error) {
	runtime.Gosched()
	n, err := w.buf.Write(p)
	runtime.Gosched()
	return n, err
}

type result struct {
	out string
	err string
}

func run(wk Worker, yield bool) []result {
	t, _ := gen.Build(wk.Script)
	long := map[string]auto.RenderTable{}
	res := make([]result, len(wk.Renders))
	for i, st := range wk.Renders {
		var rw auto.RenderTable
		if wk.Reuse {
			if long[st] == nil {
				long[st] = auto.Wrap(t, st)
			}
			rw = long[st]
		} else {
			rw = auto.Wrap(t, st)
		}
		if i < len(wk.Faults) && wk.Faults[i] > 0 {
			rw.RenderTo(&failOnce{k: wk.Faults[i] - 1})
		}
		var err error
		if yield {
			var w yieldWriter
			err = rw.RenderTo(&w)
			res[i].out = w.buf.String()
		} else {
			res[i].out, err = rw.Render()
		}
		if err != nil {
			res[i] = result{err: "error"}
		}
	}
	if wk.Deco != nil {
		d, _ := wk.Deco.Make()
		tt := texttable.Wrap(t)
		tt.SetDecoration(d)
		var r result
		var err error
		if yield {
			var w yieldWriter
			err = tt.RenderTo(&w)
			r.out = w.buf.String()
		} else {
			r.out, err = tt.Render()
		}
		if err != nil {
			r = result{err: "error"}
		}
		res = append(res, r)
	}
	return res
}

func CheckCase(c Case) *ev.Violation {
	// a process-killing failure (race detector with halt_on_error, concurrent map access) must still leave a replay file
	if p := os.Getenv("VERIF_FAIL_OUT"); p != "" {
		ev.WriteCase(p+".running", ID, c, "the process died while this case was running (data race reported by the Go race detector, or a fatal runtime error)")
		defer os.Remove(p + ".running")
	}
	want := make([][]result, len(c.Workers))
	for i, wk := range c.Workers {
		want[i] = run(wk, false)
	}
	reps := c.Reps
	if reps < 1 {
		reps = 1
	}
	for rep := 0; rep < reps; rep++ {
		got := make([][]result, len(c.Workers))
		var wg sync.WaitGroup
		var stop int32
		var start sync.WaitGroup
		start.Add(1)
		for i := range c.Workers {
			wg.Add(1)
			go func(i int) {
				defer wg.Done()
				start.Wait()
				got[i] = run(c.Workers[i], true)
			}(i)
		}
		var rg sync.WaitGroup
		if c.Registry {
			rg.Add(1)
			go func() {
				defer rg.Done()
				start.Wait()
				for atomic.LoadInt32(&stop) == 0 {
					_ = decoration.Named("utf8-light")
					_ = decoration.RegisteredDecorationNames()
					_ = auto.ListStyles()
					runtime.Gosched()
				}
			}()
		}
		start.Done()
		wg.Wait()
		atomic.StoreInt32(&stop, 1)
		rg.Wait()
		for i := range c.Workers {
			for j := range want[i] {
				if got[i][j] != want[i][j] {
					style := "custom decoration"
					if j < len(c.Workers[i].Renders) {
						style = c.Workers[i].Renders[j]
					}
					return ev.V("repetition %d: goroutine %d render %d (%s) differs from the same table rendered alone\n--- concurrent\n%s%s\n--- alone\n%s%s",
						rep+1, i, j, style, got[i][j].err, got[i][j].out, want[i][j].err, want[i][j].out)
				}
			}
		}
	}
	return nil
}

func Classify(c Case) (bool, interface{}, []string) {
	count := map[string]int{}
	for _, w := range c.Workers {
		seen := map[string]bool{}
		for _, s := range w.Renders {
			if !seen[s] {
				seen[s] = true
				count[s]++
			}
		}
	}
	nt := false
	var cl []string
	for s, n := range count {
		if n >= 2 {
			nt = true
			cl = append(cl, "shared-style-"+s)
		}
	}
	cl = append(cl, fmt.Sprintf("goroutines-%d", len(c.Workers)))
	if c.Registry {
		cl = append(cl, "registry-reader")
	}
	return nt, nil, cl
}
