package c19

import (
	"os"
	"strings"
	"testing"

	"pgregory.net/rapid"

	"verif/harness/internal/ev"
	"verif/harness/internal/gen"
	"verif/harness/internal/h"
)

var prop = h.Prop[Case]{ID: ID, Check: CheckCase, Classify: Classify}

func TestMain(m *testing.M) { os.Exit(ev.Main(ID, m)) }

func TestReplay(t *testing.T) { prop.Replay(t, nil) }

func nameGen() *rapid.Generator[string] {
	return rapid.Custom(func(t *rapid.T) string {
		n := rapid.StringMatching(`[A-Za-z_-][A-Za-z0-9_-]{0,10}`).Draw(t, "name")
		if rapid.IntRange(0, 5).Draw(t, "unicode") == 0 {
			// letters whose lower-case form has another length in UTF-8, and other non-ASCII letters
			n += rapid.SampledFrom([]string{"\u0130nce", "\u212a", "\u03a9", "\u1e9e", "\u00c5", "\u023a", "\u6f22", "\u00e9"}).Draw(t, "uni")
		}
		if rapid.IntRange(0, 5).Draw(t, "blanks") == 0 {
			// blanks are part of a name ("#" is where the per-case suffix goes)
			n = rapid.SampledFrom([]string{" %s#", "%s# ", "\t%s#", "%s#\n", " %s # ", "%s two words#", "%s#  "}).Draw(t, "blank-form")
			n = strings.Replace(n, "%s", rapid.StringMatching(`[A-Za-z_-]{1,4}`).Draw(t, "stem"), 1)
		}
		if rapid.IntRange(0, 5).Draw(t, "dots") == 0 {
			// a registered name may contain dots: it is listed, so it is a valid style, as a whole ("#" = the per-case suffix)
			n = rapid.SampledFrom([]string{"%s.b#", "%s#.b", "%s#.b.c", "%s.b.c#", ".%s#", "%s#.", "%s..#"}).Draw(t, "dot-form")
			stem := rapid.StringMatching(`[A-Za-z_-]{1,4}`).Draw(t, "stem")
			switch strings.ToLower(stem) {
			case "csv", "html", "json", "markdown", "texttable":
				stem += "_" // the first section must not be a sub-package name
			}
			n = strings.Replace(n, "%s", stem, 1)
		}
		// a bare name must not be a sub-package name (case-insensitively); the per-case numeric suffix guarantees that too
		switch strings.ToLower(n) {
		case "csv", "html", "json", "markdown", "texttable":
			n += "_"
		}
		return n
	})
}

func caseGen() *rapid.Generator[Case] {
	full := gen.DecoGen()
	// now and then an application registers a half-made decoration: only template fields, never populated
	dg := rapid.Custom(func(t *rapid.T) gen.DecoSpec {
		if gen.Rarely(t, "raw-deco", 8) {
			fields := rapid.SliceOfNDistinct(rapid.SampledFrom([]string{"Horizontal", "Vertical", "TopDown", "VBorder", "CrossPiece", "HRule"}), 1, 3, rapid.ID[string]).Draw(t, "raw-fields")
			m := map[string]string{}
			for i, f := range fields {
				m[f] = gen.Glyphs[i]
			}
			return gen.DecoSpec{Custom: m, Raw: true}
		}
		return full.Draw(t, "full-deco")
	})
	return rapid.Custom(func(t *rapid.T) Case {
		c := Case{Names: rapid.SliceOfN(nameGen(), 1, 6).Draw(t, "names")}
		if rapid.IntRange(0, 2).Draw(t, "family?") == 0 {
			// a family of names: P and P.S (and P.S.T), each its own decoration - the longest registered name wins
			stem := rapid.StringMatching(`[A-Za-z_-]{1,4}`).Draw(t, "family-stem")
			switch strings.ToLower(stem) {
			case "csv", "html", "json", "markdown", "texttable":
				stem += "_"
			}
			c.Names = append(c.Names, stem+"#", stem+"#.wide")
			if rapid.Bool().Draw(t, "family-3") {
				c.Names = append(c.Names, stem+"#.wide.er")
			}
		}
		n := rapid.IntRange(2, 14).Draw(t, "n")
		for i := 0; i < n; i++ {
			k := rapid.SampledFrom([]string{"register", "register", "register", "listing", "listing", "style", "style", "style", "style", "style", "registerpkg"}).Draw(t, "op")
			op := Op{K: k}
			switch k {
			case "registerpkg":
				op.Which = rapid.IntRange(0, 6).Draw(t, "which")
				op.Deco = dg.Draw(t, "deco")
			case "register":
				op.Name = rapid.IntRange(0, 8).Draw(t, "name")
				op.Deco = dg.Draw(t, "deco")
			case "style":
				op.Subject = rapid.SampledFrom([]string{"name", "name", "name", "builtin", "pkg", "pkg", "texttable", "unknown", "empty", "near"}).Draw(t, "subject")
				op.Name = rapid.IntRange(0, 8).Draw(t, "name")
				op.Which = rapid.IntRange(0, 5).Draw(t, "which")
				switch op.Subject {
				case "name", "builtin":
					op.Form = rapid.SampledFrom([]string{"bare", "bare", "tt.", "Tt.", "TT.", "bare+trail", "tt.+trail", "pad"}).Draw(t, "form")
					op.Trail = rapid.SampledFrom([]string{"compact", "x.y", "wide"}).Draw(t, "trail")
				case "pkg":
					op.Form = rapid.SampledFrom([]string{"bare", "flip", "trail", "flip+trail", "pad", "tt."}).Draw(t, "form")
					op.Trail = rapid.SampledFrom([]string{"x", "x.y", "", "utf8-light", "caption=foo", "CSV", "..", "texttable.none"}).Draw(t, "trail")
				case "near":
					op.Form = rapid.SampledFrom([]string{"bare", "bare", "tt.", "TT.", "bare+trail"}).Draw(t, "form")
					op.Trail = rapid.SampledFrom([]string{"x", "xy", "x.y", "wide", "compact", "caption"}).Draw(t, "trail")
				case "texttable":
					op.Form = rapid.SampledFrom([]string{"bare", "flip"}).Draw(t, "form")
				default:
					op.Form = rapid.SampledFrom([]string{"bare", "tt."}).Draw(t, "form")
				}
			}
			c.Ops = append(c.Ops, op)
		}
		return c
	})
}

func TestProp(t *testing.T) { prop.Rapid(t, caseGen()) }
