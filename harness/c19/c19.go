// Package c19: every advertised style works and style strings resolve as documented.
package c19

import (
	"fmt"
	"sort"
	"strings"
	"sync/atomic"

	"go.pennock.tech/tabular"
	"go.pennock.tech/tabular/auto"
	"go.pennock.tech/tabular/csv"
	"go.pennock.tech/tabular/html"
	"go.pennock.tech/tabular/json"
	"go.pennock.tech/tabular/markdown"
	"go.pennock.tech/tabular/texttable"
	"go.pennock.tech/tabular/texttable/decoration"

	"verif/harness/internal/ev"
	"verif/harness/internal/gen"
)

const ID = "C19"

// Op is one action on the process-global style space.
//
//	register  register a new decoration under Names[Name] (made globally fresh by a per-case suffix)
//	listing   check auto.ListStyles (twice in a row)
//	style     check how a style string resolves: Form applied to Subject
type Op struct {
	K       string       `json:"k"`
	Name    int          `json:"name,omitempty"` // index into Case.Names (register; style with Subject "name")
	Deco    gen.DecoSpec `json:"deco,omitempty"`
	Subject string       `json:"subject,omitempty"` // name | builtin | pkg | texttable | unknown | empty
	Which   int          `json:"which,omitempty"`   // which builtin / package
	Form    string       `json:"form,omitempty"`    // bare | tt. | Tt. | TT. | flip | trail | flip+trail
	Trail   string       `json:"trail,omitempty"`
}

type Case struct {
	Names []string `json:"names"` // base names, [A-Za-z0-9_-]+
	Ops   []Op     `json:"ops"`
}

var caseSeq int64

var pkgs = []string{"csv", "html", "json", "markdown"}

func fill(t tabular.Table) {
	t.AddHeaders("h1", "h2")
	t.AddRowItems("a", "b\nc")
	t.AddSeparator()
	t.AddRowItems("wide cell text")
}

func flip(s string) string {
	b := []byte(s)
	for i := range b {
		if i%2 == 0 && b[i] >= 'a' && b[i] <= 'z' {
			b[i] -= 32
		}
	}
	return string(b)
}

func kindOf(rt auto.RenderTable) string {
	switch rt.(type) {
	case *csv.CSVTable:
		return "csv"
	case *html.HTMLTable:
		return "html"
	case *json.JSONTable:
		return "json"
	case *markdown.MarkdownTable:
		return "markdown"
	case *texttable.TextTable:
		return "texttable"
	}
	return fmt.Sprintf("%T", rt)
}

func direct(pkg string) (string, error) {
	t := tabular.New()
	fill(t)
	switch pkg {
	case "csv":
		return csv.Render(t)
	case "html":
		return html.Wrap(t).Render()
	case "json":
		return json.Render(t)
	case "markdown":
		return markdown.Render(t)
	}
	return "", fmt.Errorf("no such package")
}

func textBy(name string, named bool) (string, error) {
	tt := texttable.New()
	fill(tt)
	if named {
		if _, err := tt.SetDecorationNamed(name); err != nil {
			return "", err
		}
	}
	return tt.Render()
}

// resolve checks one style string against what the documentation promises.
func resolve(style, wantKind, wantName string, wantNamed, wantFail bool) *ev.Violation {
	rt := auto.New(style)
	if rt == nil {
		return ev.V("auto.New(%q) returned nil", style)
	}
	if k := kindOf(rt); k != wantKind {
		return ev.V("auto.New(%q) is a %s table, expected %s", style, k, wantKind)
	}
	fill(rt)
	out, err := rt.Render()
	t2 := tabular.New()
	fill(t2)
	out2, err2 := auto.Render(t2, style)
	t2b := tabular.New()
	fill(t2b)
	var buf strings.Builder
	err2b := auto.RenderTo(t2b, &buf, style)
	if (err2b != nil) != (err != nil) || (err == nil && buf.String() != out) {
		return ev.V("auto.RenderTo(t, w, %q) gives err=%v and %q; auto.New(%q).Render() gives err=%v and %q", style, err2b, buf.String(), style, err, out)
	}
	if out != out2 || (err != nil) != (err2 != nil) {
		return ev.V("auto.New(%q).Render() and auto.Render(t,%q) disagree: %q/%v vs %q/%v", style, style, out, err, out2, err2)
	}
	// re-styling an existing table (itself made by auto with another style) resolves the same way
	for _, other := range []string{"ascii-simple", "csv", "none"} {
		base := auto.New(other)
		fill(base)
		o3, e3 := auto.Wrap(base, style).Render()
		if o3 != out || (e3 != nil) != (err != nil) {
			return ev.V("auto.Wrap(auto.New(%q), %q) renders differently from auto.New(%q): err %v vs %v\n--- re-styled\n%s\n--- direct\n%s", other, style, style, e3, err, o3, out)
		}
	}
	// a styled table keeps its style whatever else is wrapped around the same table afterwards
	{
		base := tabular.New()
		fill(base)
		kept := auto.Wrap(base, style)
		for _, other := range []string{"ascii-simple", "no-such-style-at-all", "texttable", "csv", "none"} {
			later := auto.Wrap(base, other)
			if len(style)%2 == 0 {
				later.Render()
			}
		}
		o4, e4 := kept.Render()
		if o4 != out || (e4 != nil) != (err != nil) {
			return ev.V("auto.Wrap(t, %q), rendered after other styles were wrapped around the same table, differs from auto.New(%q): err %v vs %v\n--- kept\n%s\n--- direct\n%s", style, style, e4, err, o4, out)
		}
	}
	if wantFail {
		if err == nil || out != "" {
			return ev.V("style %q names nothing known, yet rendering gave err=%v output=%q", style, err, out)
		}
		return nil
	}
	if err != nil {
		return ev.V("style %q failed to render: %v", style, err)
	}
	var want string
	var werr error
	if wantKind == "texttable" {
		want, werr = textBy(wantName, wantNamed)
	} else {
		want, werr = direct(wantKind)
	}
	if werr != nil {
		return ev.V("harness: reference render for %q failed: %v", style, werr)
	}
	if out != want {
		return ev.V("style %q renders differently from %s %q selected directly\n--- got\n%s\n--- want\n%s", style, wantKind, wantName, out, want)
	}
	return nil
}

func CheckCase(c Case) *ev.Violation {
	seq := atomic.AddInt64(&caseSeq, 1)
	actual := make([]string, len(c.Names))
	for i, b := range c.Names {
		// fixed-width suffix: two names can only be equal if they come from the same case
		// (a plain "%s%d" let base "A" of case 327 collide with base "A3" of case 27)
		if strings.Contains(b, "#") {
			actual[i] = strings.Replace(b, "#", fmt.Sprintf("-%08d", seq), 1) // the suffix sits inside: the name may end in blanks
		} else {
			actual[i] = fmt.Sprintf("%s-%08d", b, seq)
		}
	}
	registered := map[string]bool{}
	pkgNamed := map[string]bool{}
	checkListing := func(step int) *ev.Violation {
		for rep := 0; rep < 2; rep++ {
			if rep == 1 {
				// what the first call handed out is the caller's: it may do with it what it likes
				mine := auto.ListStyles()
				for k := range mine {
					mine[k] = "  scribbled by the caller"
				}
				sort.Sort(sort.Reverse(sort.StringSlice(mine)))
			}
			l := auto.ListStyles()
			if !sort.StringsAreSorted(l) {
				return ev.V("step %d: ListStyles (call %d) is not sorted: %v", step, rep+1, l)
			}
			have := map[string]bool{}
			for _, s := range l {
				have[s] = true
			}
			for _, p := range pkgs {
				if !have[p] {
					return ev.V("step %d: ListStyles (call %d) lacks %q: %v", step, rep+1, p, l)
				}
			}
			for _, b := range gen.BuiltinDecos {
				if !have[b] {
					return ev.V("step %d: ListStyles (call %d) lacks the built-in decoration %q: %v", step, rep+1, b, l)
				}
			}
			for n := range registered {
				if !have[n] {
					return ev.V("step %d: ListStyles (call %d) lacks %q, which the application registered: %v", step, rep+1, n, l)
				}
			}
			// every advertised name is accepted and renders: this case's names, the fixed ones, and a sample of the rest
			stride := len(l)/6 + 1
			for i, s := range l {
				mine := registered[s] || i%stride == int(seq)%stride
				for _, p := range pkgs {
					mine = mine || s == p
				}
				for _, b := range gen.BuiltinDecos {
					mine = mine || s == b
				}
				if !mine {
					continue
				}
				rt := auto.New(s)
				fill(rt)
				if out, err := rt.Render(); err != nil || out == "" {
					return ev.V("step %d: listed style %q does not render: err=%v output=%q", step, s, err, out)
				}
			}
		}
		return nil
	}
	for i, op := range c.Ops {
		step := i + 1
		switch op.K {
		case "registerpkg":
			// an application may register a decoration under any name, also one that happens to be a sub-package
			// name: the sub-package name keeps selecting that renderer, 'texttable.<name>' selects the decoration
			n := append(append([]string{}, pkgs...), "texttable", "CSV", "Json")[op.Which%7]
			d, _ := op.Deco.Make()
			decoration.RegisterDecorationName(n, d)
			registered[n] = true
			pkgNamed[n] = true
		case "register":
			if len(actual) == 0 {
				continue
			}
			n := actual[op.Name%len(actual)]
			d, _ := op.Deco.Make()
			if op.Deco.Name == decoration.D_NONE && op.Deco.Custom == nil {
				d = decoration.NoBox()
			}
			decoration.RegisterDecorationName(n, d)
			registered[n] = true
		case "listing":
			if v := checkListing(step); v != nil {
				return v
			}
		case "style":
			var v *ev.Violation
			trail := ""
			if strings.Contains(op.Form, "trail") {
				trail = "." + strings.Trim(strings.ReplaceAll(op.Trail, "\x00", ""), " ")
			}
			switch op.Subject {
			case "pkg":
				p := pkgs[op.Which%len(pkgs)]
				s := p
				if strings.Contains(op.Form, "flip") {
					s = flip(p)
				}
				if op.Form == "tt." {
					// after "texttable." a sub-package name is a decoration name like any other: known only if registered
					n := p
					if len(op.Trail)%2 == 1 {
						n = flip(p)
					}
					known := decoration.Named(n) != decoration.EmptyDecoration
					v = resolve("texttable."+n, "texttable", n, true, !known)
					break
				}
				if op.Form == "pad" {
					// blanks are part of a name: a padded sub-package name is no sub-package name (and nobody registered it)
					s = []string{" " + p, p + " ", "\t" + p, p + "\n", " " + p + " "}[len(op.Trail)%5]
					if !registered[s] {
						v = resolve(s, "texttable", "", false, true)
					}
					break
				}
				v = resolve(s+trail, p, "", false, false)
			case "texttable":
				s := "texttable"
				if strings.Contains(op.Form, "flip") {
					s = flip(s)
				}
				v = resolve(s, "texttable", "", false, false)
			case "builtin", "name", "near":
				var n string
				if op.Subject == "builtin" {
					n = gen.BuiltinDecos[op.Which%len(gen.BuiltinDecos)]
				} else if op.Subject == "near" {
					// a near miss of a name that does exist: whether it selects anything is decided by the documented rule
					// below (it is known only if somebody registered exactly that), never by its likeness
					n = gen.BuiltinDecos[op.Which%len(gen.BuiltinDecos)]
					if len(actual) > 0 && op.Name%2 == 1 {
						n = actual[op.Name%len(actual)]
					}
					switch (op.Name/2 + op.Which) % 6 {
					case 0:
						n = strings.ReplaceAll(n, "-", "_")
					case 1:
						n = strings.ReplaceAll(n, "_", "-")
					case 2:
						n = n[:len(n)-1]
					case 3:
						n = n + "-"
					case 4:
						n = strings.ReplaceAll(n, "-", "")
					default:
						n = strings.ReplaceAll(n, "-", " ")
					}
					if n == "" || strings.Contains(n, ".") {
						continue
					}
				} else {
					if len(actual) == 0 {
						continue
					}
					n = actual[op.Name%len(actual)]
				}
				known := op.Subject == "builtin" || registered[n]
				selects := n
				if !known && strings.Contains(n, ".") {
					// not (yet) registered as a whole: then its first section is the name and the rest are trailing sections
					if first := n[:strings.Index(n, ".")]; registered[first] || decoration.Named(first) != decoration.EmptyDecoration {
						known, selects = true, first
					}
				}
				var s string
				form := op.Form
				if strings.Contains(n, ".") && (strings.Contains(form, "trail") || form == "pad") {
					form = "bare" // what follows a dotted name is not locked down: only the whole name is tried
				}
				switch form {
				case "tt.":
					s = "texttable." + n
				case "Tt.":
					s = "TextTable." + n
				case "TT.":
					s = "TEXTTABLE." + n
				case "tt.+trail":
					s = "texttable." + n + trail // texttable is a sub-package name: what follows the decoration name is an unknown trailing section
				case "bare+trail":
					s = n + trail // sections after the first are ignored (not locked down): the name still selects the decoration
				case "pad":
					s = []string{" " + n, n + " ", "\t" + n, n + "\n", " " + n + " "}[len(op.Trail)%5]
					known = registered[s]
					n, selects = s, s
				default:
					s = n
				}
				// the documented rule, applied to the style as built (it may coincide with another registered name of
				// the case): after an optional "texttable." the whole remainder if that is a registered name, else its
				// first section if that is one, else nothing known
				after := s
				if len(s) >= 10 && strings.EqualFold(s[:10], "texttable.") {
					after = s[10:]
				}
				isReg := func(x string) bool { return decoration.Named(x) != decoration.EmptyDecoration }
				first := after
				if i := strings.Index(after, "."); i >= 0 {
					first = after[:i]
				}
				switch {
				case isReg(after):
					known, selects = true, after
				case isReg(first):
					known, selects = true, first
				default:
					known = false
				}
				v = resolve(s, "texttable", selects, true, !known)
			case "unknown":
				s := fmt.Sprintf("no-such-style-%d", seq)
				if op.Form == "tt." {
					s = "texttable." + s
				}
				v = resolve(s, "texttable", "", false, true)
			case "empty":
				s := ""
				if op.Form == "tt." {
					s = "texttable."
				}
				v = resolve(s, "texttable", "", false, true)
			}
			if v != nil {
				return ev.V("step %d: %s", step, v.Msg)
			}
		}
	}
	return checkListing(len(c.Ops) + 1)
}

func Classify(c Case) (bool, interface{}, []string) {
	var cl []string
	seen := map[string]bool{}
	add := func(s string) {
		if !seen[s] {
			seen[s] = true
			cl = append(cl, s)
		}
	}
	regs := map[int]bool{}
	nt := false
	for _, op := range c.Ops {
		switch op.K {
		case "register":
			if len(c.Names) > 0 {
				regs[op.Name%len(c.Names)] = true
			}
			add("register")
		case "listing":
			if len(regs) > 0 {
				add("listing-after-register")
			}
			if len(regs) >= 3 {
				add("listing-after-three-registrations")
			}
		case "style":
			add("style-" + op.Subject + "-" + op.Form)
			if op.Subject == "name" && len(c.Names) > 0 && regs[op.Name%len(c.Names)] {
				nt = true
				add("style-of-registered-name")
			}
			if op.Form != "bare" && op.Form != "" {
				nt = true
			}
		}
	}
	for _, n := range c.Names {
		if strings.ToLower(n) != n {
			add("name-with-upper-case")
		}
		if strings.TrimSpace(strings.Replace(n, "#", "x", 1)) != strings.Replace(n, "#", "x", 1) || strings.Contains(n, " ") {
			add("name-with-blanks")
		}
		if strings.Contains(n, ".") {
			add("name-with-dots")
		}
	}
	return nt, nil, cl
}
