// Package c08: Markdown output keeps GFM table structure and neutralises cell content.
package c08

import (
	"bytes"
	stdhtml "html"
	"regexp"
	"strings"

	"go.pennock.tech/tabular"
	"go.pennock.tech/tabular/markdown"
	"go.pennock.tech/tabular/properties/align"

	"verif/harness/internal/ev"
	"verif/harness/internal/gen"
	"verif/harness/internal/oracle"
	"verif/harness/internal/tc"
)

const ID = "C08"

type Case struct {
	Script gen.Script `json:"script"`
	Align  []int      `json:"align,omitempty"` // [0] column 0 default, [i] column i: 0 unset 1 left 2 right 3 centre
	// Pre > 0: the wrapper is created and rendered once after Pre-1 operations; the checked render goes through it again.
	Pre int `json:"pre,omitempty"`
	// Props: a property history on the columns, applied after Align (several keys per column, re-set and removed)
	Props []gen.PropOp `json:"props,omitempty"`
}

// finalAlign folds Align and the property history into the alignment each column ends up with; with a table, it
// performs them on it as well.
func finalAlign(c Case, n int, t tabular.Table, base map[int]int) []int {
	al := make([]int, n+1)
	for i := range al {
		al[i] = base[i] // what property steps in between the build steps left behind
	}
	for i := 0; i <= n && i < len(c.Align); i++ {
		if v := tc.AlignValue(c.Align[i]); v != nil {
			al[i] = c.Align[i]
			if t != nil {
				t.Column(i).SetProperty(align.PropertyType, v)
			}
		}
	}
	gen.ApplyProps(t, c.Props, n, al, nil)
	return al
}

var delimRe = regexp.MustCompile(`^ ?(:?)-{3,}(:?) ?$`)

// an ampersand in the output must start a well-formed character reference (whichever form the escaper prefers);
// that the reference decodes to the right thing is checked by the decode-and-compare step
var entityRe = regexp.MustCompile(`^&(?:[A-Za-z][A-Za-z0-9]*|#[0-9]+|#[xX][0-9A-Fa-f]+);`)

// splitPipes splits on pipes that are not preceded by an odd run of backslashes.
func splitPipes(line string) (parts []string, escapedPipes int) {
	start := 0
	for i := 0; i < len(line); i++ {
		if line[i] != '|' {
			continue
		}
		bs := 0
		for j := i - 1; j >= 0 && line[j] == '\\'; j-- {
			bs++
		}
		if bs%2 == 1 {
			escapedPipes++
			continue
		}
		parts = append(parts, line[start:i])
		start = i + 1
	}
	parts = append(parts, line[start:])
	return
}

func effAlign(al []int, col int) int {
	a := 0
	if col < len(al) {
		a = al[col]
	}
	if a == 0 && len(al) > 0 {
		a = al[0]
	}
	return a
}

func CheckCase(c Case) *ev.Violation {
	t := gen.NewTable(c.Script.Creator)
	m := &gen.Model{}
	var early *markdown.MarkdownTable
	for i, op := range c.Script.Ops {
		if c.Pre > 0 && i == c.Pre-1 {
			early = markdown.Wrap(t)
			early.Render()
		}
		m.Step(t, op)
	}
	n := m.NCols()
	if n != m.MaxEver {
		// a replaced, narrower header (or the like): which column count is "right" is C02's business; here the
		// statement speaks of the columns the table has, so its own count is taken (it must cover what is there)
		if n = t.NColumns(); n < m.NCols() {
			return nil
		}
	} else if t.NColumns() != n {
		return ev.V("NColumns()=%d but the build history has %d columns", t.NColumns(), n)
	}
	al := finalAlign(c, n, t, m.AlignCode)
	gen.ScrambleRowsCopy(t) // the caller may do what it likes with the copy it was handed
	w := early
	if w == nil {
		w = markdown.Wrap(t)
	}
	out, err := w.Render()
	if n == 0 || !m.HeaderSet {
		if err == nil {
			return ev.V("a table with %d columns and header-set=%v rendered without error: %q", n, m.HeaderSet, out)
		}
		if out != "" {
			return ev.V("error %v together with text %q", err, out)
		}
		return nil
	}
	if err != nil {
		return ev.V("render failed: %v", err)
	}
	if !strings.HasSuffix(out, "\n") {
		return ev.V("output does not end with a line feed: %q", out)
	}
	lines := strings.Split(strings.TrimSuffix(out, "\n"), "\n")
	data := m.DataRows()
	if len(lines) != 2+len(data) {
		return ev.V("%d lines, want header + delimiter + %d rows\n%s", len(lines), len(data), out)
	}
	for li, line := range lines {
		parts, esc := splitPipes(line)
		if len(parts) != n+2 {
			return ev.V("line %d has %d unescaped pipes, want %d\n%s", li, len(parts)-1, n+1, out)
		}
		if esc != 0 {
			return ev.V("line %d carries a backslash-escaped pipe, which came from cell content\n%s", li, out)
		}
		if parts[0] != "" || parts[n+1] != "" {
			return ev.V("line %d has text outside the outer pipes\n%s", li, out)
		}
		cells := parts[1 : n+1]
		if li == 1 {
			for ci, d := range cells {
				mm := delimRe.FindStringSubmatch(d)
				if mm == nil {
					return ev.V("delimiter cell %d is %q\n%s", ci+1, d, out)
				}
				lead, trail := mm[1] == ":", mm[2] == ":"
				ok := false
				switch effAlign(al, ci+1) {
				case oracle.AUnset:
					ok = !lead && !trail
				case oracle.ALeft:
					ok = !trail
				case oracle.ARight:
					ok = !lead && trail
				case oracle.ACenter:
					ok = lead && trail
				}
				if !ok {
					return ev.V("delimiter cell %d is %q but the column's effective alignment is %d (0 unset 1 left 2 right 3 centre)\n%s", ci+1, d, effAlign(al, ci+1), out)
				}
			}
			continue
		}
		var src []gen.MCell
		if li == 0 {
			src = m.Header
		} else {
			src = data[li-2].Cells
		}
		// nothing from cell content reaches the output unescaped
		if strings.ContainsAny(line, "<>\"'\r") {
			return ev.V("line %d contains a raw angle bracket or quote\n%s", li, out)
		}
		for i := 0; i < len(line); i++ {
			if line[i] == '&' {
				if !entityRe.MatchString(line[i:]) {
					return ev.V("line %d has an ampersand that does not start a character reference: %q\n%s", li, line[i:min(len(line), i+8)], out)
				}
			}
		}
		for ci, raw := range cells {
			want := ""
			if ci < len(src) {
				want = strings.Trim(src[ci].Text, " ")
			}
			got := stdhtml.UnescapeString(strings.Trim(raw, " "))
			if got != want {
				return ev.V("line %d cell %d decodes to %q, cell text (space-trimmed) is %q (raw %q)\n%s", li, ci+1, got, want, raw, out)
			}
		}
	}
	var b bytes.Buffer
	if err := w.RenderTo(&b); err != nil || b.String() != out {
		return ev.V("RenderTo wrote %q (err %v), Render returned %q", b.String(), err, out)
	}
	if out2, err := markdown.Render(t); err != nil || out2 != out {
		return ev.V("markdown.Render gave %q (err %v), wrapper Render %q", out2, err, out)
	}
	return nil
}

func min(a, b int) int {
	if a < b {
		return a
	}
	return b
}

func Classify(c Case) (bool, interface{}, []string) {
	_, m := gen.Build(c.Script)
	var cl []string
	seen := map[string]bool{}
	add := func(s string) {
		if !seen[s] {
			seen[s] = true
			cl = append(cl, s)
		}
	}
	nt := false
	n := m.NCols()
	if n == 0 || !m.HeaderSet {
		add("error-expected")
	} else {
		add("renders")
	}
	texts := func(cells []gen.MCell) {
		for _, x := range cells {
			s := x.Text
			for _, k := range []struct{ sub, name string }{{"|", "pipe"}, {"\n", "lf"}, {"<", "angle"}, {"&", "amp"}, {"\\", "backslash"}} {
				if strings.Contains(s, k.sub) {
					add("content-" + k.name)
					if k.name != "backslash" {
						nt = true
					}
				}
			}
			if strings.HasSuffix(s, "\n") && strings.Count(s, "\n") == 1 {
				add("content-single-trailing-lf")
			}
			if strings.Contains(s, "&") && strings.Contains(s, ";") {
				add("entity-lookalike")
			}
			if strings.HasPrefix(s, " ") || strings.HasSuffix(s, " ") {
				add("outer-spaces")
			}
		}
	}
	texts(m.Header)
	for _, r := range m.DataRows() {
		texts(r.Cells)
		if len(r.Cells) < n {
			add("short-row")
			nt = true
		}
	}
	if m.HeaderSet && len(m.Header) < n {
		add("short-header")
	}
	if c.Pre > 0 && c.Pre <= len(c.Script.Ops) {
		add("rendered-while-incomplete")
	}
	if m.Mutated {
		add("item-mutated-and-updated")
	}
	al := finalAlign(c, n, nil, m.AlignCode)
	for i := 1; i <= n; i++ {
		own := al[i]
		if own == 0 && al[0] != 0 {
			add("inherited-align")
			nt = true
		}
		if own == 0 && al[0] == 0 && i > 1 && al[i-1] > 1 {
			add("unset-after-right-or-centre")
		}
		add([]string{"eff-unset", "eff-left", "eff-right", "eff-centre"}[effAlign(al, i)])
	}
	if d := gen.PropHistDepth(c.Props, n); d >= 3 {
		add("column-carries-3-or-more-keys")
	}
	return nt, nil, cl
}
