package c08

import (
	"os"
	"strings"
	"testing"

	"pgregory.net/rapid"

	"verif/harness/internal/ev"
	"verif/harness/internal/gen"
	"verif/harness/internal/h"
)

var prop = h.Prop[Case]{ID: ID, Check: CheckCase, Classify: Classify}

func TestMain(m *testing.M) { os.Exit(ev.Main(ID, m)) }

func TestReplay(t *testing.T) { prop.Replay(t, nil) }

var mdRunes = []rune{'|', '<', '>', '&', '"', '\'', '\n', '\\', '`', 'a', ' ', 0x6f22}

func itemGen() *rapid.Generator[gen.Item] {
	tok := gen.StrItem(gen.TokMD, 4)
	anyItem := gen.AnyItem(gen.TokMD, 1)
	hot := gen.ExpandingString([]string{"|", "&", "<", "\\", "\n", "`", "*", "\"", "&#124;"})
	return rapid.Custom(func(t *rapid.T) gen.Item {
		if gen.Rarely(t, "hot", 14) {
			return gen.S(hot.Draw(t, "hot-text"))
		}
		switch rapid.IntRange(0, 11).Draw(t, "kind") {
		case 0:
			return gen.Item{K: "rune", N: int64(rapid.SampledFrom(mdRunes).Draw(t, "rune"))}
		case 1, 2:
			it := gen.NoAddressText(anyItem.Draw(t, "any"))
			if l := gen.Materialise(it); !strings.Contains(gen.TextForm(it, l), "\r") {
				return it
			}
		}
		if rapid.IntRange(0, 9).Draw(t, "raw") == 0 {
			b := rapid.SliceOfN(rapid.Byte(), 0, 8).Draw(t, "bytes")
			return gen.S(strings.ReplaceAll(string(b), "\r", "?")) // CR is a documented non-goal
		}
		return tok.Draw(t, "tok")
	})
}

func caseGen() *rapid.Generator[Case] {
	max := 8
	if h.Thorough() {
		max = 14
	}
	opts := gen.ScriptOpts{
		AllowProps: true, AllowRowErr: true, Item: itemGen(),
		MinOps:      0,
		MaxOps:      max,
		MaxCells:    4,
		ForceHdr:    true,
		MultiHdr:    true, // a header row may be replaced, also by a narrower one
		AllowMutate: true,
		Creators:    []string{"core", "markdown", "markdown", "csv"},
	}
	withHdr := gen.ScriptGen(opts)
	opts.ForceHdr = false
	anyHdr := gen.ScriptGen(opts)
	return rapid.Custom(func(t *rapid.T) Case {
		var c Case
		if rapid.IntRange(0, 9).Draw(t, "hdrmode") == 0 {
			c.Script = anyHdr.Draw(t, "script")
		} else {
			c.Script = withHdr.Draw(t, "script")
		}
		c.Align = rapid.SliceOfN(rapid.IntRange(0, 3), 0, 6).Draw(t, "align")
		if rapid.IntRange(0, 2).Draw(t, "props?") == 0 {
			c.Props = gen.PropHistGen(8).Draw(t, "props")
		}
		if rapid.IntRange(0, 3).Draw(t, "pre?") == 0 {
			c.Pre = 1 + rapid.IntRange(0, len(c.Script.Ops)).Draw(t, "pre")
		}
		return c
	})
}

func TestProp(t *testing.T) { prop.Rapid(t, caseGen()) }

func FuzzC08(f *testing.F) {
	f.Add("h", "a|b", "x\ny", "<i>&amp;</i>", uint8(0xff), uint8(0x1b))
	f.Add("\\|", "&#x7c;", "tail\n", "\\", uint8(0x0f), uint8(0xe4))
	f.Fuzz(func(t *testing.T, hd, a, b, c string, shape, al uint8) {
		for _, s := range []string{hd, a, b, c} {
			if strings.Contains(s, "\r") {
				t.Skip()
			}
		}
		ops := []gen.Op{{K: "hdr", Items: []gen.Item{gen.S(hd), gen.S(c), gen.S(a)}[:1+int(shape&3)%3]}}
		ops = append(ops, gen.Op{K: "rowitems", Items: []gen.Item{gen.S(a), gen.S(b), gen.S(c)}[:int(shape>>2)%4]})
		if shape&0x10 != 0 {
			ops = append(ops, gen.Op{K: "sep"})
		}
		ops = append(ops, gen.Op{K: "rowitems", Items: []gen.Item{gen.S(b), gen.S(hd)}[:int(shape>>5)%3]})
		cs := Case{Script: gen.Script{Ops: ops}, Align: []int{int(al & 3), int(al >> 2 & 3), int(al >> 4 & 3), int(al >> 6 & 3)}}
		if v := prop.Eval(cs); v != nil {
			t.Fatalf("VIOLATION %s", ID)
		}
	})
}
