// Package c04: the text table shows every cell line in its own slot, aligned as the column asks.
package c04

import (
	"verif/harness/internal/ev"
	"verif/harness/internal/tc"
)

const ID = "C04"

type Case = tc.Case

func CheckCase(c Case) *ev.Violation { return tc.Check(c) }

func Classify(c Case) (bool, interface{}, []string) {
	f := tc.Describe(c)
	nt := f.InheritedAlign || f.OddCentre || f.Override
	return nt, nil, f.Classes
}
