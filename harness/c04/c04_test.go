package c04

import (
	"fmt"
	"os"
	"testing"

	"pgregory.net/rapid"

	"verif/harness/internal/ev"
	"verif/harness/internal/gen"
	"verif/harness/internal/h"
)

var prop = h.Prop[Case]{ID: ID, Check: CheckCase, Classify: Classify}

func TestMain(m *testing.M) { os.Exit(ev.Main(ID, m)) }

func TestReplay(t *testing.T) { prop.Replay(t, nil) }

// single-line tokens for width-declaring items (exactly one non-empty text line)
var oneLine = []string{"a", "ab", "abcd", "x y", "\x1b[1m", "\x1b[0m", "漢", "é", "​", "Hello", "0"}

// twinTexts: texts that both width-declaring items and plain cells draw from (whatever is remembered per text must
// not carry over from the one to the other).
var twinTexts = []string{"ok", "total", "\u6f22\u5b57", "n/a", "e\u0301t\u00e9"}

// overrideItem draws an item that declares its width and/or height.
func overrideItem() *rapid.Generator[gen.Item] {
	return rapid.Custom(func(t *rapid.T) gen.Item {
		textMask := rapid.SampledFrom([]int{1, 2, 4, 3, 5, 6, 7}).Draw(t, "textmask")
		it := gen.Item{K: "if", P: rapid.Bool().Draw(t, "ptr")}
		declW := rapid.IntRange(0, 2).Draw(t, "declw") > 0
		declH := !declW || rapid.Bool().Draw(t, "declh")
		var text string
		if declW {
			// the statement covers single-line width-declaring items only
			text = gen.StringOf(oneLine, 1, 3).Draw(t, "line")
			if text == "" {
				text = "w"
			}
			if rapid.IntRange(0, 3).Draw(t, "twin") == 0 {
				text = rapid.SampledFrom(twinTexts).Draw(t, "twin-text") // the same text may sit in a plain cell of the same table
			}
			if rapid.IntRange(0, 3).Draw(t, "trailing-lf") == 0 {
				text += "\n" // still exactly one text line
			}
			it.M |= gen.MWidth
			it.W = rapid.IntRange(0, 12).Draw(t, "w")
		} else {
			text = gen.StringOf(gen.TokWidth, 0, 3).Draw(t, "text")
		}
		if declH {
			it.M |= gen.MHeight
			it.H = rapid.IntRange(0, 5).Draw(t, "h")
		}
		it.M |= textMask
		// the winning text method carries the text, the others carry decoys
		switch {
		case textMask&1 != 0:
			it.S, it.G, it.E = gen.Str(text), "decoy-g\nx", "decoy-e"
		case textMask&2 != 0:
			it.G, it.E = gen.Str(text), "decoy-e\n\ny"
		default:
			it.E = gen.Str(text)
		}
		return it
	})
}

func caseGen() *rapid.Generator[Case] {
	max := 10
	if h.Thorough() {
		max = 16
	}
	plain := gen.StrItem(gen.TokWidth, 4)
	ov := overrideItem()
	item := rapid.Custom(func(t *rapid.T) gen.Item {
		if rapid.IntRange(0, 3).Draw(t, "override") == 0 {
			return ov.Draw(t, "ov")
		}
		if rapid.IntRange(0, 5).Draw(t, "twin") == 0 {
			return gen.S(rapid.SampledFrom(twinTexts).Draw(t, "twin-text"))
		}
		if gen.Rarely(t, "nested", 8) {
			in := plain.Draw(t, "inner")
			return gen.Item{K: rapid.SampledFrom([]string{"cell", "pcell"}).Draw(t, "nest"), In: &in}
		}
		return plain.Draw(t, "plain")
	})
	sg := gen.ScriptGen(gen.ScriptOpts{
		AllowProps: true, AllowRowErr: true, HeavyTail: 12, AllowMutate: true,
		Item:     item,
		MinOps:   1,
		MaxOps:   max,
		MaxCells: 5,
		Creators: []string{"core", "core", "texttable"},
	})
	dg := gen.DecoGen()
	return rapid.Custom(func(t *rapid.T) Case {
		c := Case{Script: sg.Draw(t, "script"), Deco: dg.Draw(t, "deco")}
		c.Align = rapid.SliceOfN(rapid.IntRange(0, 3), 0, 7).Draw(t, "align")
		c.AlignByCallback = rapid.IntRange(0, 5).Draw(t, "by-callback") == 0
		if !c.AlignByCallback && rapid.IntRange(0, 3).Draw(t, "props?") == 0 {
			c.Props = gen.PropHistGen(8).Draw(t, "props")
		}
		if rapid.IntRange(0, 3).Draw(t, "also?") == 0 {
			c.Also = rapid.SliceOfN(rapid.SampledFrom([]string{"markdown", "markdown!", "csv!", "json", "html!", "texttable", "texttable!", "none!"}), 1, 3).Draw(t, "also")
		}
		c.Renders = rapid.IntRange(1, 3).Draw(t, "renders")
		c.AppCB = rapid.SampledFrom([]int{0, 0, 0, 1, 1, 2}).Draw(t, "appcb")
		c.LateText = rapid.IntRange(0, 7).Draw(t, "late-text") == 0 && c.Pre == 0
		if rapid.IntRange(0, 3).Draw(t, "pre?") == 0 {
			c.Pre = 1 + rapid.IntRange(0, len(c.Script.Ops)).Draw(t, "pre")
		}
		if gen.Rarely(t, "bulk", 400) {
			c.Bulk = rapid.SampledFrom([]int{1021, 1022, 1023, 1024, 1025, 2047}).Draw(t, "bulkrows") // row counts around powers of two
		}
		return c
	})
}

func TestProp(t *testing.T) { prop.Rapid(t, caseGen()) }

// TestEnum: every assignment of {unset,left,right,centre} to column 0 and to
// each of two columns, on fixed grids with even and odd pads, single- and
// multi-line cells, under two decorations.
func TestEnum(t *testing.T) {
	grids := [][]gen.Op{
		{{K: "hdr", Items: []gen.Item{gen.S("H"), gen.S("Head2")}}, {K: "rowitems", Items: []gen.Item{gen.S("abcd"), gen.S("x")}}, {K: "rowitems", Items: []gen.Item{gen.S("ab\nc"), gen.S("xyz")}}},
		{{K: "rowitems", Items: []gen.Item{gen.S("a"), gen.S("漢字")}}, {K: "sep"}, {K: "rowitems", Items: []gen.Item{gen.S("abcdef")}}, {K: "rowitems"}},
		{{K: "rowitems", Items: []gen.Item{{K: "if", M: gen.MString | gen.MWidth, S: "\x1b[1mab\x1b[0m", W: 2}, gen.S("q")}}, {K: "rowitems", Items: []gen.Item{gen.S("abcde"), {K: "if", M: gen.MError | gen.MHeight, E: "e", H: 3}}}},
	}
	var n int64
	for gi, g := range grids {
		for a0 := 0; a0 < 4; a0++ {
			for a1 := 0; a1 < 4; a1++ {
				for a2 := 0; a2 < 4; a2++ {
					for _, d := range []string{"utf8-heavy", "none", "ascii-simple"} {
						n++
						c := Case{Script: gen.Script{Ops: g}, Deco: gen.DecoSpec{Name: d}, Align: []int{a0, a1, a2}}
						if v := prop.Eval(c); v != nil {
							t.Fatalf("VIOLATION %s grid %d: %s", ID, gi, v.Msg)
						}
					}
				}
			}
		}
	}
	ev.R().Sub(ev.SubRun{Name: "alignment-matrix", Bound: fmt.Sprintf("%d grids x 4^3 alignment assignments (column 0, 1, 2) x 3 decorations", len(grids)), Cases: n, Exhaustive: true})
}
