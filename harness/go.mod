module verif/harness

go 1.23

toolchain go1.23.5

require (
	github.com/anishathalye/porcupine v1.3.0
	go.pennock.tech/tabular v0.0.0
	pgregory.net/rapid v1.3.0
)

require (
	github.com/mattn/go-runewidth v0.0.14 // indirect
	github.com/rivo/uniseg v0.4.4 // indirect
)

replace go.pennock.tech/tabular => /repo
