// Package c12: properties behave as an independent key-to-value map for each owner.
package c12

import (
	"fmt"
	"reflect"

	"go.pennock.tech/tabular"
	"go.pennock.tech/tabular/csv"
	"go.pennock.tech/tabular/properties/align"

	"verif/harness/internal/ev"
)

const ID = "C12"

// Op is one step of a property history.
//
//	set      set key Key to a fresh unique value on the owner
//	setnil   set key Key to nil on the owner
//	reset    re-set a key that is already set to its current value Reps times; the owner's %#v must not grow
//	copycell new owner: a by-value copy of a cell owner
//	addcopy  add a copy owner to a row (Row.Add takes the cell by value): new live cell, same properties
//	grow     AddRowItems with N cells (N may cross the 10/20 column capacities)
//	hdr      AddHeaders with N cells
//	newrow   a pending row with N cells; attach attaches the oldest pending row
//	sep      AddSeparator
//	handle   take and keep t.Column(Col)
//	setmany  set N distinct keys (8..12, i.e. most of the pool) on the owner in one go
//	nestcell new owner: a cell built from a cell (NewCell(<copy of a cell owner>)); it starts with no properties of its own
//	update   call Cell.Update() on a cell/copy owner: properties are not its business
type Op struct {
	K     string `json:"k"`
	Owner Owner  `json:"owner,omitempty"`
	Key   int    `json:"key,omitempty"`
	N     int    `json:"n,omitempty"`
	Reps  int    `json:"reps,omitempty"`
	Col   int    `json:"col,omitempty"`
	// V: the form of the value a "set" stores: 0 a fresh unique int; 1 a fresh pointer, 2 a fresh map, 3 a fresh
	// slice inside a struct pointer - each time with the SAME contents as every other value of that form, so that
	// only identity tells the most recent one from the earlier ones; 4 a boxed copy of the key itself.
	V int `json:"v,omitempty"`
}

type box struct{ S []int }

// value builds the value of form v; seq is unique per set.
func value(v, seq int, key interface{}) interface{} {
	switch v {
	case 1:
		return new(int)
	case 2:
		return map[string]int{"a": 1}
	case 3:
		return &box{S: []int{1, 2}}
	case 4:
		return [1]interface{}{key}
	case 5:
		return (*box)(nil) // a typed nil pointer is a value like any other: only the untyped nil removes
	}
	return seq
}

// same: is got the very value that was stored (identity for reference values).
func same(got, want interface{}) bool {
	if got == nil || want == nil {
		return got == nil && want == nil
	}
	vg, vw := reflect.ValueOf(got), reflect.ValueOf(want)
	if vg.Type() != vw.Type() {
		return false
	}
	if vg.Kind() == reflect.Map {
		return vg.Pointer() == vw.Pointer()
	}
	return got == want
}

// mut is a mutable item: what a cell shows changes only when the cell is updated.
type mut struct{ s string }

func (m *mut) String() string { return m.s }

// Owner addresses a property owner; indices are taken modulo what exists.
type Owner struct {
	Kind string `json:"kind,omitempty"` // table | wtable | col | hcol | row | cell | hdr | copy
	I    int    `json:"i,omitempty"`    // column number / handle index / row index / copy index
	J    int    `json:"j,omitempty"`    // cell index within the row
}

type Case struct {
	Ops []Op `json:"ops"`
}

type namedKey int
type structKey struct{ A int }

var p1, p2 = new(int), new(int)

// pointers of different types to the same address, and typed nil pointers of different types
type firstField struct {
	A int
	B string
}

var ff = &firstField{}

// a pointer is a fine key whatever it points to
type holdsSlice struct{ names []string }

var hs = &holdsSlice{names: []string{"a"}}

// Keys: equal values of distinct types, pointers, structs, and the library's own alignment key.
var Keys = []interface{}{int(1), int64(1), "1", namedKey(1), structKey{1}, p1, p2, align.PropertyType, int(2), namedKey(2), uint8(1), structKey{2},
	ff, &ff.A, (*int)(nil), (*namedKey)(nil), hs}

type props map[int]interface{}

func (p props) clone() props {
	q := props{}
	for k, v := range p {
		q[k] = v
	}
	return q
}

type rowModel struct {
	real     *tabular.Row
	props    props
	cells    []props
	attached bool
	sep      bool
}

type copyModel struct {
	cell  *tabular.Cell
	props props
}

type world struct {
	t       *tabular.ATable
	w       *csv.CSVTable
	table   props
	cols    []props // index = column number, grows with the table
	handles []struct {
		h   tabular.PropertyOwner
		col int
	}
	rows   []*rowModel // creation order
	hdr    []props
	copies []*copyModel
	seq    int
}

func (w *world) syncCols() {
	for len(w.cols) < w.t.NColumns()+1 {
		w.cols = append(w.cols, props{})
	}
}

type resolved struct {
	po    tabular.PropertyOwner
	model props
	name  string
	print interface{} // what to print with %#v for the growth check
}

func mod(a, n int) int { return ((a % n) + n) % n }

// resolve maps an Owner onto a live property owner and its model; ok=false if nothing of that kind exists.
func (w *world) resolve(o Owner) (r resolved, ok bool) {
	switch o.Kind {
	case "", "table":
		return resolved{w.t, w.table, "table", w.t}, true
	case "wtable":
		return resolved{w.w, w.table, "table through a csv wrapper", w.t}, true
	case "col":
		n := mod(o.I, len(w.cols))
		return resolved{w.t.Column(n), w.cols[n], fmt.Sprintf("Column(%d) fetched now", n), w.t}, true
	case "hcol":
		if len(w.handles) == 0 {
			return r, false
		}
		h := w.handles[mod(o.I, len(w.handles))]
		return resolved{h.h, w.cols[h.col], fmt.Sprintf("handle to column %d taken earlier", h.col), w.t}, true
	case "row":
		if len(w.rows) == 0 {
			return r, false
		}
		rm := w.rows[mod(o.I, len(w.rows))]
		return resolved{rm.real, rm.props, fmt.Sprintf("row #%d", mod(o.I, len(w.rows))), rm.real}, true
	case "cell":
		var cand []*rowModel
		for _, rm := range w.rows {
			if len(rm.cells) > 0 {
				cand = append(cand, rm)
			}
		}
		if len(cand) == 0 {
			return r, false
		}
		rm := cand[mod(o.I, len(cand))]
		j := mod(o.J, len(rm.cells))
		cells := rm.real.Cells()
		if j >= len(cells) {
			return r, false
		}
		return resolved{&cells[j], rm.cells[j], fmt.Sprintf("cell %d of a row (attached=%v)", j+1, rm.attached), &cells[j]}, true
	case "hdr":
		if len(w.hdr) == 0 {
			return r, false
		}
		hs := w.t.Headers()
		j := mod(o.J, len(w.hdr))
		if j >= len(hs) {
			return r, false
		}
		return resolved{&hs[j], w.hdr[j], fmt.Sprintf("header cell %d", j+1), &hs[j]}, true
	case "copy":
		if len(w.copies) == 0 {
			return r, false
		}
		cm := w.copies[mod(o.I, len(w.copies))]
		return resolved{cm.cell, cm.props, fmt.Sprintf("by-value cell copy #%d", mod(o.I, len(w.copies))), cm.cell}, true
	}
	return r, false
}

// sweep reads every key on every owner and compares with the model.
func (w *world) sweep(step int, what string) *ev.Violation {
	chk := func(name string, po tabular.PropertyOwner, model props) *ev.Violation {
		for ki, k := range Keys {
			got := po.GetProperty(k)
			want := model[ki]
			if !same(got, want) {
				return ev.V("after step %d (%s): %s: GetProperty(%T %v) = %v, want %v", step, what, name, k, k, got, want)
			}
		}
		return nil
	}
	if v := chk("table", w.t, w.table); v != nil {
		return v
	}
	if v := chk("table through wrapper", w.w, w.table); v != nil {
		return v
	}
	for n := range w.cols {
		if v := chk(fmt.Sprintf("Column(%d)", n), w.t.Column(n), w.cols[n]); v != nil {
			return v
		}
	}
	for i, h := range w.handles {
		if v := chk(fmt.Sprintf("handle #%d to column %d taken earlier", i, h.col), h.h, w.cols[h.col]); v != nil {
			return v
		}
	}
	for i, rm := range w.rows {
		if v := chk(fmt.Sprintf("row #%d", i), rm.real, rm.props); v != nil {
			return v
		}
		cells := rm.real.Cells()
		if len(cells) != len(rm.cells) {
			return ev.V("after step %d (%s): row #%d has %d cells, model %d", step, what, i, len(cells), len(rm.cells))
		}
		for j := range cells {
			if v := chk(fmt.Sprintf("row #%d cell %d", i, j+1), &cells[j], rm.cells[j]); v != nil {
				return v
			}
		}
	}
	hs := w.t.Headers()
	for j := range w.hdr {
		if j < len(hs) {
			if v := chk(fmt.Sprintf("header cell %d", j+1), &hs[j], w.hdr[j]); v != nil {
				return v
			}
		}
	}
	for i, cm := range w.copies {
		if v := chk(fmt.Sprintf("by-value cell copy #%d", i), cm.cell, cm.props); v != nil {
			return v
		}
	}
	return nil
}

func CheckCase(c Case) *ev.Violation {
	t := tabular.New()
	w := &world{t: t, w: csv.Wrap(t), table: props{}}
	w.syncCols()
	items := func(n int) []interface{} {
		out := make([]interface{}, n)
		for i := range out {
			if i%2 == 0 {
				out[i] = &mut{fmt.Sprintf("m%d", i)}
			} else {
				out[i] = fmt.Sprintf("c%d", i)
			}
		}
		return out
	}
	cellProps := func(n int) []props {
		out := make([]props, n)
		for i := range out {
			out[i] = props{}
		}
		return out
	}
	for i, op := range c.Ops {
		step := i + 1
		switch op.K {
		case "set", "setnil":
			r, ok := w.resolve(op.Owner)
			if !ok {
				break
			}
			ki := mod(op.Key, len(Keys))
			if op.K == "setnil" {
				if err := r.po.SetProperty(Keys[ki], nil); err != nil {
					return ev.V("step %d: SetProperty(nil) on %s failed: %v", step, r.name, err)
				}
				delete(r.model, ki)
			} else {
				w.seq++
				val := value(op.V, w.seq, Keys[ki])
				if err := r.po.SetProperty(Keys[ki], val); err != nil {
					return ev.V("step %d: SetProperty on %s failed: %v", step, r.name, err)
				}
				r.model[ki] = val
			}
		case "setmany":
			r, ok := w.resolve(op.Owner)
			if !ok {
				break
			}
			n := op.N
			if n < 1 {
				n = 9
			}
			for k := 0; k < n && k < len(Keys); k++ {
				ki := mod(op.Key+k, len(Keys))
				w.seq++
				r.po.SetProperty(Keys[ki], w.seq)
				r.model[ki] = w.seq
			}
		case "nestcell":
			o := op.Owner
			if o.Kind != "cell" && o.Kind != "hdr" && o.Kind != "copy" {
				o.Kind = "cell"
			}
			r, ok := w.resolve(o)
			if !ok {
				break
			}
			outer := tabular.NewCell(*(r.po.(*tabular.Cell)))
			w.copies = append(w.copies, &copyModel{cell: &outer, props: props{}})
		case "update":
			o := op.Owner
			if o.Kind != "cell" && o.Kind != "hdr" && o.Kind != "copy" {
				o.Kind = "copy"
			}
			r, ok := w.resolve(o)
			if !ok {
				break
			}
			// the item behind the cell may have changed in the meantime (N: 0 unchanged, 1 other text, 2 no text)
			cell := r.po.(*tabular.Cell)
			if m, ok := cell.Item().(*mut); ok {
				switch op.N % 3 {
				case 1:
					m.s += "+"
				case 2:
					m.s = ""
				}
			}
			cell.Update()
		case "reset":
			r, ok := w.resolve(op.Owner)
			if !ok || len(r.model) == 0 {
				break
			}
			// pick a set key deterministically
			ki := -1
			for off := 0; off < len(Keys); off++ {
				k := mod(op.Key+off, len(Keys))
				if _, set := r.model[k]; set {
					ki = k
					break
				}
			}
			r.po.SetProperty(Keys[ki], r.model[ki])
			before := len(fmt.Sprintf("%#v", r.print))
			reps := op.Reps
			if reps < 1 {
				reps = 1
			}
			for k := 0; k < reps; k++ {
				r.po.SetProperty(Keys[ki], r.model[ki])
			}
			after := len(fmt.Sprintf("%#v", r.print))
			if after != before {
				return ev.V("step %d: re-setting key %T %v on %s %d times grew its stored state: %%#v went from %d to %d bytes", step, Keys[ki], Keys[ki], r.name, reps, before, after)
			}
		case "copycell":
			o := op.Owner
			if o.Kind != "cell" && o.Kind != "hdr" && o.Kind != "copy" {
				o.Kind = "cell"
			}
			r, ok := w.resolve(o)
			if !ok {
				break
			}
			cp := *(r.po.(*tabular.Cell))
			w.copies = append(w.copies, &copyModel{cell: &cp, props: r.model.clone()})
		case "addcopy":
			if len(w.copies) == 0 || len(w.rows) == 0 {
				break
			}
			cm := w.copies[mod(op.Owner.I, len(w.copies))]
			var cand []*rowModel
			for _, rm := range w.rows {
				if !rm.sep {
					cand = append(cand, rm)
				}
			}
			if len(cand) == 0 {
				break
			}
			rm := cand[mod(op.N, len(cand))]
			rm.real.Add(*cm.cell)
			rm.cells = append(rm.cells, cm.props.clone())
		case "grow":
			n := op.N
			if n < 0 {
				n = 0
			}
			t.AddRowItems(items(n)...)
			rows := t.AllRows()
			w.rows = append(w.rows, &rowModel{real: rows[len(rows)-1], props: props{}, cells: cellProps(n), attached: true})
		case "hdr":
			n := op.N
			if n < 0 {
				n = 0
			}
			t.AddHeaders(items(n)...)
			w.hdr = cellProps(n)
		case "newrow":
			r := tabular.NewRow()
			n := op.N
			if n < 0 {
				n = 0
			}
			for _, it := range items(n) {
				r.Add(tabular.NewCell(it))
			}
			w.rows = append(w.rows, &rowModel{real: r, props: props{}, cells: cellProps(n)})
		case "attach":
			for _, rm := range w.rows {
				if !rm.attached {
					t.AddRow(rm.real)
					rm.attached = true
					break
				}
			}
		case "sep":
			t.AddSeparator()
			rows := t.AllRows()
			w.rows = append(w.rows, &rowModel{real: rows[len(rows)-1], props: props{}, attached: true, sep: true})
		case "handle":
			w.syncCols()
			n := mod(op.Col, len(w.cols))
			w.handles = append(w.handles, struct {
				h   tabular.PropertyOwner
				col int
			}{t.Column(n), n})
		}
		w.syncCols()
		if v := w.sweep(step, op.K); v != nil {
			return v
		}
	}
	return nil
}

// keysPerOwner replays the history and reports the largest number of distinct keys any one resolved owner received.
func keysPerOwner(c Case) int {
	best := 0
	func() {
		defer func() { recover() }()
		t := tabular.New()
		w := &world{t: t, w: csv.Wrap(t), table: props{}}
		w.syncCols()
		seen := map[string]map[int]bool{}
		note := func(name string, k int) {
			if seen[name] == nil {
				seen[name] = map[int]bool{}
			}
			seen[name][k] = true
			if len(seen[name]) > best {
				best = len(seen[name])
			}
		}
		// a light-weight replay: only the operations that create owners, and the set operations
		for _, op := range c.Ops {
			switch op.K {
			case "set", "setnil":
				if r, ok := w.resolve(op.Owner); ok {
					note(r.name, mod(op.Key, len(Keys)))
				}
			case "setmany":
				if r, ok := w.resolve(op.Owner); ok {
					for k := 0; k < op.N && k < len(Keys); k++ {
						note(r.name, mod(op.Key+k, len(Keys)))
					}
				}
			case "grow":
				n := op.N
				if n < 0 {
					n = 0
				}
				items := make([]interface{}, n)
				for i := range items {
					items[i] = "c"
				}
				t.AddRowItems(items...)
				rows := t.AllRows()
				cp := make([]props, n)
				for i := range cp {
					cp[i] = props{}
				}
				w.rows = append(w.rows, &rowModel{real: rows[len(rows)-1], props: props{}, cells: cp, attached: true})
			case "handle":
				w.syncCols()
				n := mod(op.Col, len(w.cols))
				w.handles = append(w.handles, struct {
					h   tabular.PropertyOwner
					col int
				}{t.Column(n), n})
			}
			w.syncCols()
		}
	}()
	return best
}

func Classify(c Case) (bool, interface{}, []string) {
	var cl []string
	seen := map[string]bool{}
	add := func(s string) {
		if !seen[s] {
			seen[s] = true
			cl = append(cl, s)
		}
	}
	sets := map[string]map[int]bool{}
	multiKey, copyOrHandle := false, false
	cols := 0
	handleAt := -1
	grewAfterHandle := false
	for _, op := range c.Ops {
		switch op.K {
		case "set", "setnil":
			id := fmt.Sprintf("%s/%d/%d", op.Owner.Kind, op.Owner.I, op.Owner.J)
			if sets[id] == nil {
				sets[id] = map[int]bool{}
			}
			sets[id][mod(op.Key, len(Keys))] = true
			if len(sets[id]) >= 2 {
				multiKey = true
			}
			add("owner-" + op.Owner.Kind)
			if op.K == "setnil" {
				add("set-nil")
			} else if op.V >= 1 && op.V <= 3 {
				add("value-told-apart-by-identity-only")
			}
		case "copycell", "addcopy", "nestcell":
			copyOrHandle = true
			add(op.K)
		case "setmany":
			multiKey = true
			add("setmany")
		case "update":
			add("update")
			if op.N%3 != 0 {
				add("update-after-item-changed")
			}
		case "handle":
			handleAt = cols
			add("handle")
		case "grow", "hdr", "newrow":
			if op.N > cols && op.K != "newrow" {
				if handleAt >= 0 {
					grewAfterHandle = true
					if cols < 10 && op.N >= 10 {
						add("handle-held-across-10-columns")
					}
					if cols < 20 && op.N >= 20 {
						add("handle-held-across-20-columns")
					}
				}
				cols = op.N
			}
		case "reset":
			add("reset")
		}
	}
	if grewAfterHandle {
		copyOrHandle = true
		add("handle-held-across-growth")
	}
	if !multiKey && keysPerOwner(c) >= 2 {
		multiKey = true
	}
	return multiKey && copyOrHandle, nil, cl
}
