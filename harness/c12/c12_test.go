package c12

import (
	"os"
	"testing"

	"pgregory.net/rapid"

	"verif/harness/internal/ev"
	"verif/harness/internal/gen"
	"verif/harness/internal/h"
)

var prop = h.Prop[Case]{ID: ID, Check: CheckCase, Classify: Classify}

func TestMain(m *testing.M) { os.Exit(ev.Main(ID, m)) }

func TestReplay(t *testing.T) { prop.Replay(t, nil) }

func ownerGen() *rapid.Generator[Owner] {
	return rapid.Custom(func(t *rapid.T) Owner {
		return Owner{
			Kind: rapid.SampledFrom([]string{"table", "wtable", "col", "col", "hcol", "hcol", "row", "cell", "cell", "cell", "hdr", "copy", "copy"}).Draw(t, "kind"),
			I:    rapid.IntRange(0, 5).Draw(t, "i"),
			J:    rapid.IntRange(0, 3).Draw(t, "j"),
		}
	})
}

func caseGen() *rapid.Generator[Case] {
	max := 30
	if h.Thorough() {
		max = 60
	}
	og := ownerGen()
	return rapid.Custom(func(t *rapid.T) Case {
		n := rapid.IntRange(3, max).Draw(t, "n")
		var c Case
		for i := 0; i < n; i++ {
			if gen.Rarely(t, "lifo", 10) {
				// a cell gets two keys, is copied, and then one of the two drops its newest key and takes another one
				cell := Owner{Kind: "cell", I: rapid.IntRange(0, 5).Draw(t, "i"), J: rapid.IntRange(0, 3).Draw(t, "j")}
				ka, kb, kc := rapid.IntRange(0, len(Keys)-1).Draw(t, "ka"), rapid.IntRange(0, len(Keys)-1).Draw(t, "kb"), rapid.IntRange(0, len(Keys)-1).Draw(t, "kc")
				who := cell
				if rapid.Bool().Draw(t, "on-copy") {
					who = Owner{Kind: "copy", I: -1}
				}
				c.Ops = append(c.Ops, Op{K: "set", Owner: cell, Key: ka}, Op{K: "set", Owner: cell, Key: kb}, Op{K: "copycell", Owner: cell},
					Op{K: "setnil", Owner: who, Key: kb}, Op{K: "set", Owner: who, Key: kc})
				continue
			}
			k := rapid.SampledFrom([]string{"set", "set", "set", "set", "set", "setnil", "setnil", "reset", "copycell", "copycell", "addcopy", "grow", "grow", "hdr", "newrow", "attach", "sep", "handle", "handle", "setmany", "nestcell", "update"}).Draw(t, "op")
			op := Op{K: k}
			switch k {
			case "setmany":
				op.Owner = og.Draw(t, "owner")
				op.Key = rapid.IntRange(0, len(Keys)-1).Draw(t, "key")
				op.N = rapid.IntRange(8, len(Keys)).Draw(t, "nkeys")
			case "set", "setnil", "reset", "copycell", "nestcell", "update":
				op.Owner = og.Draw(t, "owner")
				op.Key = rapid.IntRange(0, 5).Draw(t, "key") // a small window of the pool so that keys collide often
				if rapid.IntRange(0, 4).Draw(t, "widekey") == 0 {
					op.Key = rapid.IntRange(0, len(Keys)-1).Draw(t, "key2")
				}
				op.Reps = rapid.IntRange(1, 5).Draw(t, "reps")
				op.V = rapid.SampledFrom([]int{0, 0, 0, 1, 1, 2, 3, 4, 5}).Draw(t, "vform")
				op.N = rapid.IntRange(0, 2).Draw(t, "itemchange")
			case "addcopy":
				op.Owner = Owner{Kind: "copy", I: rapid.IntRange(0, 5).Draw(t, "copy")}
				op.N = rapid.IntRange(0, 5).Draw(t, "row")
			case "grow", "hdr", "newrow":
				op.N = rapid.SampledFrom([]int{0, 1, 2, 2, 3, 3, 4, 8, 9, 10, 11, 12, 19, 20, 21, 24}).Draw(t, "cells")
			case "handle":
				// favour the highest and the defaults column
				op.Col = rapid.SampledFrom([]int{0, -1, -1, 1, 2, 3, 5, 9}).Draw(t, "col")
			}
			c.Ops = append(c.Ops, op)
		}
		return c
	})
}

func TestProp(t *testing.T) { prop.Rapid(t, caseGen()) }

// TestEnum: every history of up to VERIF_C12_ENUM_LEN operations over a small alphabet: two keys of equal value
// and distinct type, a third key, set / set-to-nil on a cell, on its by-value copy, on the table and on a column
// handle, plus copying the cell and growing the table past the ten-column capacity.
func TestEnum(t *testing.T) {
	maxLen := h.EnvInt("VERIF_C12_ENUM_LEN", 5)
	cell := Owner{Kind: "cell"}
	cp := Owner{Kind: "copy"}
	al := []Op{
		{K: "set", Owner: cell, Key: 0}, {K: "set", Owner: cell, Key: 1}, {K: "set", Owner: cell, Key: 8}, {K: "setnil", Owner: cell, Key: 0}, {K: "setnil", Owner: cell, Key: 1},
		{K: "set", Owner: cp, Key: 0}, {K: "set", Owner: cp, Key: 8}, {K: "setnil", Owner: cp, Key: 0}, {K: "setnil", Owner: cp, Key: 1},
		{K: "copycell", Owner: cell},
		{K: "set", Owner: Owner{Kind: "hcol"}, Key: 0}, {K: "setnil", Owner: Owner{Kind: "col", I: 1}, Key: 0},
		{K: "grow", N: 11},
		{K: "reset", Owner: cell, Key: 0, Reps: 3},
		{K: "set", Owner: cell, Key: 0, V: 1}, {K: "update", Owner: cell, N: 1},
	}
	prefix := []Op{{K: "grow", N: 2}, {K: "handle", Col: 1}}
	shard, shards := h.Shard()
	var n int64
	var rec func(ops []Op)
	rec = func(ops []Op) {
		if len(ops) > len(prefix) {
			n++
			c := Case{Ops: append([]Op{}, ops...)}
			ev.R().EvalEnum(nil, true)
			if v := ev.Guard(func() *ev.Violation { return CheckCase(c) }); v != nil {
				ev.R().Fail(ID, c, v)
				t.Fatalf("VIOLATION %s", ID)
			}
		}
		if len(ops) == len(prefix)+maxLen {
			return
		}
		for i, op := range al {
			if len(ops) == len(prefix) && i%shards != shard {
				continue
			}
			rec(append(ops, op))
		}
	}
	rec(prefix)
	ev.R().Sub(ev.SubRun{Name: "small-histories", Bound: "every sequence of 1..N operations (N = VERIF_C12_ENUM_LEN) over a 16-operation alphabet (3 keys; cell, its copy, a column handle; copy; growth past 10 columns; re-set; a pointer value equal in contents to the previous one; Update after the item changed)", Cases: n, Exhaustive: true})
}
