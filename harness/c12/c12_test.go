package c12

import (
	"os"
	"testing"

	"pgregory.net/rapid"

	"verif/harness/internal/ev"
	"verif/harness/internal/h"
)

var prop = h.Prop[Case]{ID: ID, Check: CheckCase, Classify: Classify}

func TestMain(m *testing.M) { os.Exit(ev.Main(ID, m)) }

func TestReplay(t *testing.T) { prop.Replay(t, nil) }

func ownerGen() *rapid.Generator[Owner] {
	return rapid.Custom(func(t *rapid.T) Owner {
		return Owner{
			Kind: rapid.SampledFrom([]string{"table", "wtable", "col", "col", "hcol", "hcol", "row", "cell", "cell", "cell", "hdr", "copy", "copy"}).Draw(t, "kind"),
			I:    rapid.IntRange(0, 5).Draw(t, "i"),
			J:    rapid.IntRange(0, 3).Draw(t, "j"),
		}
	})
}

func caseGen() *rapid.Generator[Case] {
	max := 30
	if h.Thorough() {
		max = 60
	}
	og := ownerGen()
	return rapid.Custom(func(t *rapid.T) Case {
		n := rapid.IntRange(3, max).Draw(t, "n")
		var c Case
		for i := 0; i < n; i++ {
			k := rapid.SampledFrom([]string{"set", "set", "set", "set", "set", "setnil", "setnil", "reset", "copycell", "copycell", "addcopy", "grow", "grow", "hdr", "newrow", "attach", "sep", "handle", "handle", "setmany", "nestcell", "update"}).Draw(t, "op")
			op := Op{K: k}
			switch k {
			case "setmany":
				op.Owner = og.Draw(t, "owner")
				op.Key = rapid.IntRange(0, len(Keys)-1).Draw(t, "key")
				op.N = rapid.IntRange(8, len(Keys)).Draw(t, "nkeys")
			case "set", "setnil", "reset", "copycell", "nestcell", "update":
				op.Owner = og.Draw(t, "owner")
				op.Key = rapid.IntRange(0, 5).Draw(t, "key") // a small window of the pool so that keys collide often
				if rapid.IntRange(0, 4).Draw(t, "widekey") == 0 {
					op.Key = rapid.IntRange(0, len(Keys)-1).Draw(t, "key2")
				}
				op.Reps = rapid.IntRange(1, 5).Draw(t, "reps")
			case "addcopy":
				op.Owner = Owner{Kind: "copy", I: rapid.IntRange(0, 5).Draw(t, "copy")}
				op.N = rapid.IntRange(0, 5).Draw(t, "row")
			case "grow", "hdr", "newrow":
				op.N = rapid.SampledFrom([]int{0, 1, 2, 2, 3, 3, 4, 8, 9, 10, 11, 12, 19, 20, 21, 24}).Draw(t, "cells")
			case "handle":
				// favour the highest and the defaults column
				op.Col = rapid.SampledFrom([]int{0, -1, -1, 1, 2, 3, 5, 9}).Draw(t, "col")
			}
			c.Ops = append(c.Ops, op)
		}
		return c
	})
}

func TestProp(t *testing.T) { prop.Rapid(t, caseGen()) }
