// Package c13: callbacks fire once per target, on the live object, in the documented order.
package c13

import (
	"fmt"
	"io"
	"sort"
	"strings"
	"time"

	"go.pennock.tech/tabular"
	"go.pennock.tech/tabular/csv"
	"go.pennock.tech/tabular/html"
	"go.pennock.tech/tabular/json"
	"go.pennock.tech/tabular/markdown"
	"go.pennock.tech/tabular/texttable"

	"verif/harness/internal/ev"
	"verif/harness/internal/gen"
)

const ID = "C13"

// Step is one step of a callback history.
//
//	op      a table-building operation
//	reg     register a recording callback: Owner kind, When, Target; Ref/Col choose the owner among what exists
//	render  one render pass (Via: invoke | csv)
//	update  Cell.Update() on a cell (Ref, Col): fires nothing
//	dense     N cell callbacks on the table plus one on each of the first three columns, all in the slot When
//	seedcell  a stand-alone cell gets N render callbacks registered on it and is then added (by value) to
//	          the rows Ref and Col: both copies carry the registration; later registrations on one copy
//	          must not leak to the other
type Step struct {
	K      string  `json:"k"`
	Op     *gen.Op `json:"op,omitempty"`
	Owner  string  `json:"owner,omitempty"`  // table | column | row | cell | hdrcell
	Ref    int     `json:"ref,omitempty"`    // row (index into rows created so far, modulo)
	Col    int     `json:"col,omitempty"`    // column number / cell index (modulo)
	When   int     `json:"when,omitempty"`   // 0 add, 1 pre-cell, 2 render, 3 post-cell
	Target int     `json:"target,omitempty"` // 0 itself, 1 cell, 2 row
	Via    string  `json:"via,omitempty"`
	// Via2: the registration call is made on ANOTHER table object (RegisterPropertyCallback is a method of a
	// table, but the callback belongs to the owner it names, wherever that owner lives).
	Via2 bool `json:"via2,omitempty"`
	// N > 1 (reg steps): the same registration is made N times (N distinct callbacks in one slot)
	N int `json:"n,omitempty"`
	// Err (reg, dense): the callback does its work and then reports an error; that is no reason for any other
	// callback not to be invoked
	Err bool `json:"err,omitempty"`
	// Grow (reg with owner table, add time, target row): having recorded the row it is handed, the callback adds one
	// more cell to it - the row is live, and so are all its cells for the callbacks that follow
	Grow bool `json:"grow,omitempty"`
	// Lazy (reg at a render time): on its first invocation the callback registers one more (silent) callback on its
	// own table: registration is open at any time, also from within a pass
	Lazy bool `json:"lazy,omitempty"`
	// Func (reg): the callback is handed over as a value of a func type (an adapter with an UpdateProperties method):
	// callbacks need not be comparable
	Func bool `json:"func,omitempty"`
	// Bad (reg): 1 = the target is not one of the three declared ones (one past the last / one before the first),
	// 2 = the time is not one of the four declared ones: refused with an error whatever the owner, nothing registered
	Bad int `json:"bad,omitempty"`
}

// funcCB adapts a function to the callback interface; values of this type cannot be compared with ==.
type funcCB func(tabular.PropertyOwner) error

func (f funcCB) UpdateProperties(po tabular.PropertyOwner) error { return f(po) }

// silent is a callback that does nothing.
type silent struct{}

func (silent) UpdateProperties(tabular.PropertyOwner) error { return nil }

type Case struct {
	Creator string `json:"creator,omitempty"`
	Steps   []Step `json:"steps"`
}

func mk[T any](xs ...T) []T { return xs }

var whens = mk(tabular.CB_AT_ADD, tabular.CB_AT_RENDER_PRECELL, tabular.CB_AT_RENDER, tabular.CB_AT_RENDER_POSTCELL)
var targets = mk(tabular.CB_ON_ITSELF, tabular.CB_ON_CELL, tabular.CB_ON_ROW)

const (
	wAdd = iota
	wPre
	wRender
	wPost
)
const (
	tItself = iota
	tCell
	tRow
)

// ident names a live object: "T", "C<n>", "R<i>" (i-th row created), "X<i>.<j>" (cell j of that row), "H<j>" (header cell), or "?" (not a live object of the table).
type ident string

type event struct {
	reg int
	obj ident
}

// pendingEvent is an invocation whose target could not be named yet (the
// object is being added by the operation in progress); it is named once the
// operation has returned.
type pendingEvent struct {
	at  int
	po  tabular.PropertyOwner
	val int
}

type reg struct {
	id     int
	owner  string // table | column | row | cell | hdrcell
	col    int    // column number for owner column
	row    *gen.MRow
	cell   int // cell index for owner cell / hdrcell
	when   int
	target int
	hdrGen int // header generation the hdrcell registration belongs to
}

type markKey struct{ reg int }

type world struct {
	t      tabular.Table
	m      *gen.Model
	regs   []*reg
	actual []event
	marks  map[event]int // last value written by reg on obj
	late   []pendingEvent
	seq    int
	hdrGen int
	nextID int
	// the live header row, if some add-time row callback was handed it (whether that happens is not specified; if
	// it does, the row is an owner like any other row)
	lateRegs  []*reg
	hdrRow    *tabular.Row
	hdrRowGen int
	inHdrOp   bool
	// rows a growing callback added a cell to during the operation in progress; the cells so added
	grownRows []*tabular.Row
	grown     map[ident]bool
}

type recorder struct {
	r    *reg
	w    *world
	fail bool
	grow bool
	lazy bool
}

func (rc *recorder) UpdateProperties(po tabular.PropertyOwner) error {
	w := rc.w
	obj := w.identify(po)
	if row, isRow := po.(*tabular.Row); isRow && obj == "?row" && w.inHdrOp {
		w.hdrRow, w.hdrRowGen = row, w.hdrGen
	}
	w.actual = append(w.actual, event{rc.r.id, obj})
	w.seq++
	po.SetProperty(markKey{rc.r.id}, w.seq)
	if strings.HasPrefix(string(obj), "?") {
		w.late = append(w.late, pendingEvent{len(w.actual) - 1, po, w.seq})
	} else {
		w.marks[event{rc.r.id, obj}] = w.seq
	}
	if rc.lazy {
		rc.lazy = false
		w.t.RegisterPropertyCallback(w.t, tabular.CB_AT_RENDER, tabular.CB_ON_CELL, silent{})
	}
	if rc.grow && !w.inHdrOp {
		if row, isRow := po.(*tabular.Row); isRow && !row.IsSeparator() {
			row.Add(tabular.NewCell("grown"))
			w.grownRows = append(w.grownRows, row)
		}
	}
	if rc.fail {
		return fmt.Errorf("callback %d reports a problem of its own", rc.r.id)
	}
	return nil
}

func (w *world) rowIndex(r *gen.MRow) int {
	for i, x := range w.m.All {
		if x == r {
			return i
		}
	}
	return -1
}

// lateCell reports whether obj names a cell that was added to its row after the row had joined the table.
func (w *world) lateCell(obj ident) bool {
	var i, j int
	if n, _ := fmt.Sscanf(string(obj), "X%d.%d", &i, &j); n != 2 || i >= len(w.m.All) {
		return false
	}
	r := w.m.All[i]
	return r.Attached && j >= len(r.Cells)-r.LateAdds
}

// identify finds which live object of the table was handed to a callback.
func (w *world) identify(po tabular.PropertyOwner) ident {
	switch x := po.(type) {
	case *tabular.ATable:
		// the core table behind any wrapper: there is exactly one in a case
		return "T"
	case *tabular.Row:
		for i, r := range w.m.All {
			if r.Real == x {
				return ident(fmt.Sprintf("R%d", i))
			}
		}
		if x == w.hdrRow && w.hdrRowGen == w.hdrGen && !w.inHdrOp {
			return "Q" // the current header row
		}
		return "?row"
	case *tabular.Cell:
		for i, r := range w.m.All {
			cells := r.Real.Cells()
			for j := range cells {
				if &cells[j] == x {
					return ident(fmt.Sprintf("X%d.%d", i, j))
				}
			}
		}
		hs := w.t.Headers()
		for j := range hs {
			if &hs[j] == x {
				return ident(fmt.Sprintf("H%d", j))
			}
		}
		return "?cell"
	}
	for n := 0; n <= w.t.NColumns(); n++ {
		if po == tabular.PropertyOwner(w.t.Column(n)) {
			return ident(fmt.Sprintf("C%d", n))
		}
	}
	return ident(fmt.Sprintf("?%T", po))
}

// specified reports whether the statement fixes the firing of this registration slot on this object.
func specified(r *reg, obj ident) bool {
	hdr := strings.HasPrefix(string(obj), "H")
	switch r.owner {
	case "table":
		switch r.target {
		case tItself:
			return r.when == wPre || r.when == wPost
		case tCell:
			if r.when == wAdd {
				return !hdr
			}
			return true
		case tRow:
			return r.when == wAdd && obj != "?row"
		}
	case "column":
		switch r.target {
		case tItself:
			return r.when == wPre || r.when == wPost // column 0, the defaults column, is one of the columns
		case tCell:
			return r.col != 0 && r.when != wRender && !hdr // column 0 has no cells of its own
		}
	case "row":
		switch r.target {
		case tItself, tRow:
			return r.when == wPre || r.when == wPost
		case tCell:
			return r.when != wRender
		}
	case "hdrrow":
		switch r.target {
		case tItself, tRow:
			return r.when == wPre || r.when == wPost
		case tCell:
			return r.when == wPre || r.when == wPost
		}
	case "cell", "hdrcell":
		return r.when == wRender
	}
	return false
}

func (w *world) regsOf(owner string, when, target int, match func(*reg) bool) []*reg {
	var out []*reg
	for _, r := range w.regs {
		if r.owner != owner || r.when != when {
			continue
		}
		t := r.target
		if (owner == "row" || owner == "hdrrow") && t == tRow {
			t = tItself
		}
		if (owner == "cell" || owner == "hdrcell") && t == tCell {
			t = tItself
		}
		if t != target {
			continue
		}
		if match == nil || match(r) {
			out = append(out, r)
		}
	}
	return out
}

// predictRender appends the events one render pass must produce (specified slots only).
func (w *world) predictRender(pred *[]event) {
	emit := func(rs []*reg, obj ident) {
		for _, r := range rs {
			if specified(r, obj) {
				*pred = append(*pred, event{r.id, obj})
			}
		}
	}
	n := w.m.MaxEver // == NColumns of the real table (never shrinks)
	emit(w.regsOf("table", wPre, tItself, nil), "T")
	for c := 0; c <= n; c++ {
		c := c
		emit(w.regsOf("column", wPre, tItself, func(r *reg) bool { return r.col == c }), ident(fmt.Sprintf("C%d", c)))
	}
	cellSeq := func(obj ident, colNum int, rowRegs func(when int) []*reg, cellRegs []*reg, body bool) {
		emit(w.regsOf("table", wPre, tCell, nil), obj)
		if body {
			emit(w.regsOf("column", wPre, tCell, func(r *reg) bool { return r.col == colNum }), obj)
		}
		emit(rowRegs(wPre), obj)
		emit(w.regsOf("table", wRender, tCell, nil), obj)
		emit(cellRegs, obj)
		emit(rowRegs(wPost), obj)
		if body {
			emit(w.regsOf("column", wPost, tCell, func(r *reg) bool { return r.col == colNum }), obj)
		}
		emit(w.regsOf("table", wPost, tCell, nil), obj)
	}
	if w.m.HeaderSet {
		cur := func(r *reg) bool { return r.hdrGen == w.hdrGen }
		emit(w.regsOf("hdrrow", wPre, tItself, cur), "Q")
		for j := range w.m.Header {
			j := j
			cellRegs := w.regsOf("hdrcell", wRender, tItself, func(r *reg) bool { return r.cell == j && r.hdrGen == w.hdrGen })
			cellSeq(ident(fmt.Sprintf("H%d", j)), j+1, func(when int) []*reg { return w.regsOf("hdrrow", when, tCell, cur) }, cellRegs, false)
		}
		emit(w.regsOf("hdrrow", wPost, tItself, cur), "Q")
	}
	for _, mr := range w.m.Rows {
		mr := mr
		i := w.rowIndex(mr)
		robj := ident(fmt.Sprintf("R%d", i))
		emit(w.regsOf("row", wPre, tItself, func(r *reg) bool { return r.row == mr }), robj)
		for j := range mr.Cells {
			j := j
			rowRegs := func(when int) []*reg {
				return w.regsOf("row", when, tCell, func(r *reg) bool { return r.row == mr })
			}
			cellRegs := w.regsOf("cell", wRender, tItself, func(r *reg) bool { return r.row == mr && r.cell == j })
			cellSeq(ident(fmt.Sprintf("X%d.%d", i, j)), j+1, rowRegs, cellRegs, true)
		}
		emit(w.regsOf("row", wPost, tItself, func(r *reg) bool { return r.row == mr }), robj)
	}
	for c := 0; c <= n; c++ {
		c := c
		emit(w.regsOf("column", wPost, tItself, func(r *reg) bool { return r.col == c }), ident(fmt.Sprintf("C%d", c)))
	}
	emit(w.regsOf("table", wPost, tItself, nil), "T")
}

// predictOp appends the add-time events of one build operation (specified slots only).
func (w *world) predictOp(op gen.Op, pred *[]event) {
	emit := func(rs []*reg, obj ident) {
		for _, r := range rs {
			if specified(r, obj) {
				*pred = append(*pred, event{r.id, obj})
			}
		}
	}
	m := w.m
	attach := func(mr *gen.MRow, idx int, ncells int) {
		robj := ident(fmt.Sprintf("R%d", idx))
		emit(w.regsOf("table", wAdd, tRow, nil), robj)
		for j := 0; j < ncells; j++ {
			j := j
			obj := ident(fmt.Sprintf("X%d.%d", idx, j))
			emit(w.regsOf("column", wAdd, tCell, func(r *reg) bool { return r.col == j+1 }), obj)
			emit(w.regsOf("table", wAdd, tCell, nil), obj)
		}
	}
	switch op.K {
	case "rowitems":
		attach(nil, len(m.All), len(op.Items))
	case "appendnew", "zerorow":
		attach(nil, len(m.All), 0)
	case "addrow":
		var pend []*gen.MRow
		for _, r := range m.All {
			if !r.Attached {
				pend = append(pend, r)
			}
		}
		if len(pend) == 0 {
			return
		}
		r := pend[((op.Ref%len(pend))+len(pend))%len(pend)]
		attach(r, w.rowIndex(r), len(r.Cells))
	case "rowadd":
		if len(m.All) == 0 || len(op.Items) == 0 {
			return
		}
		idx := ((op.Ref % len(m.All)) + len(m.All)) % len(m.All)
		r := m.All[idx]
		if r.Sep || r.NilCells {
			return
		}
		for k := range op.Items {
			obj := ident(fmt.Sprintf("X%d.%d", idx, len(r.Cells)+k))
			emit(w.regsOf("row", wAdd, tCell, func(x *reg) bool { return x.row == r }), obj)
		}
	}
}

// canon sorts each maximal run of events that share the target object and come from one slot, so
// that only the order between slots and targets is compared.
func (w *world) canon(evs []event) []string {
	byID := map[int]*reg{}
	for _, r := range w.regs {
		byID[r.id] = r
	}
	slot := func(e event) string {
		r := byID[e.reg]
		return fmt.Sprintf("%s/%d/%d/%d/%s", r.owner, r.col, r.when, normTarget(r), e.obj)
	}
	// the statement fixes the nesting (table, columns, rows ..., columns, table), not which column comes first:
	// the columns' own callbacks of one phase form one block, compared without regard to the order of the columns
	block := func(e event) string {
		if r := byID[e.reg]; r.owner == "column" && normTarget(r) == tItself {
			return fmt.Sprintf("columns-themselves/%d", r.when)
		}
		return ""
	}
	var out, blocks []string
	i := 0
	for i < len(evs) {
		j := i
		for j < len(evs) && slot(evs[j]) == slot(evs[i]) {
			j++
		}
		var ids []int
		for k := i; k < j; k++ {
			ids = append(ids, evs[k].reg)
		}
		sort.Ints(ids)
		out = append(out, fmt.Sprintf("%s<-%v", slot(evs[i]), ids))
		blocks = append(blocks, block(evs[i]))
		i = j
	}
	for a := 0; a < len(out); {
		b := a + 1
		for blocks[a] != "" && b < len(out) && blocks[b] == blocks[a] {
			b++
		}
		sort.Strings(out[a:b])
		a = b
	}
	return out
}

func normTarget(r *reg) int {
	if r.owner == "row" && r.target == tRow {
		return tItself
	}
	if (r.owner == "cell" || r.owner == "hdrcell") && r.target == tCell {
		return tItself
	}
	return r.target
}

func (w *world) describe(r *reg) string {
	return fmt.Sprintf("reg%d(owner=%s col=%d cell=%d when=%d target=%d)", r.id, r.owner, r.col, r.cell, r.when, r.target)
}

// CheckCase: a case takes milliseconds; should it not come back in half a minute, Watch looks for a deadlock.
func CheckCase(c Case) *ev.Violation {
	return ev.Watch(30*time.Second, "go.pennock.tech/tabular", func() *ev.Violation { return checkCase(c) })
}

func checkCase(c Case) *ev.Violation {
	t := gen.NewTable(c.Creator)
	other := tabular.New()
	other.AddRowItems("unrelated")
	w := &world{t: t, m: &gen.Model{}, marks: map[event]int{}}
	byID := map[int]*reg{}
	compare := func(step int, what string, pred []event) *ev.Violation {
		for _, pe := range w.late {
			if obj := w.identify(pe.po); !strings.HasPrefix(string(obj), "?") && obj != "Q" {
				w.actual[pe.at].obj = obj
				w.marks[w.actual[pe.at]] = pe.val
			}
		}
		w.late = w.late[:0]
		var act []event
		for _, e := range w.actual {
			if what == "hdr" && e.obj == "?row" {
				continue // the header row itself (not reachable through the API): add-time firing on it is unspecified
			}
			if r := byID[e.reg]; r != nil && (specified(r, e.obj) || strings.HasPrefix(string(e.obj), "?")) {
				if r.when == wAdd && w.grown[e.obj] {
					continue // add-time firing for a cell that a callback added while its row was being attached is not specified
				}
				if (r.owner == "table" || r.owner == "column") && r.when == wAdd && r.target == tCell && w.lateCell(e.obj) {
					continue // add-time firing of table/column callbacks for a cell added after its row was attached is not specified
				}
				act = append(act, e)
			}
		}
		w.actual = w.actual[:0]
		a, p := w.canon(act), w.canon(pred)
		if strings.Join(a, "\n") != strings.Join(p, "\n") {
			var regs []string
			for _, r := range w.regs {
				regs = append(regs, w.describe(r))
			}
			return ev.V("step %d (%s): callback invocations differ from the documented firing\n--- recorded (slot owner/col/when/target/object <- registrations)\n%s\n--- expected\n%s\n--- registrations\n%s",
				step, what, strings.Join(a, "\n"), strings.Join(p, "\n"), strings.Join(regs, "\n"))
		}
		return nil
	}
	for i, st := range c.Steps {
		step := i + 1
		var pred []event
		switch st.K {
		case "op":
			w.predictOp(*st.Op, &pred)
			if st.Op.K == "hdr" {
				w.hdrGen++
				w.inHdrOp = true
			}
			w.m.Step(t, *st.Op)
			w.inHdrOp = false
			for _, row := range w.grownRows {
				for i, mr := range w.m.All {
					if mr.Real != row || mr.Sep || mr.NilCells {
						continue
					}
					for len(mr.Real.Cells()) > len(mr.Cells) {
						mr.Cells = append(mr.Cells, gen.MCell{It: gen.S("grown"), Live: gen.Materialise(gen.S("grown")), Text: "grown"})
						mr.LateAdds++
						if w.grown == nil {
							w.grown = map[ident]bool{}
						}
						w.grown[ident(fmt.Sprintf("X%d.%d", i, len(mr.Cells)-1))] = true
						if mr.Attached && len(mr.Cells) > w.m.MaxEver {
							w.m.MaxEver = len(mr.Cells)
						}
					}
				}
			}
			w.grownRows = w.grownRows[:0]
		case "update":
			// refreshing a cell's text from its item is no occasion for any callback
			if len(w.m.All) > 0 {
				mr := w.m.All[((st.Ref%len(w.m.All))+len(w.m.All))%len(w.m.All)]
				if cells := mr.Real.Cells(); len(cells) > 0 {
					(&cells[((st.Col%len(cells))+len(cells))%len(cells)]).Update()
				}
			}
			if hs := t.Headers(); len(hs) > 0 && st.Col%2 == 1 {
				(&hs[0]).Update()
			}
		case "render":
			w.predictRender(&pred)
			// whichever renderer draws the table, it is one render pass
			switch st.Via {
			case "csv":
				csv.Render(t)
			case "html":
				html.Wrap(t).RenderTo(io.Discard)
			case "json":
				json.Wrap(t).RenderTo(io.Discard) // may refuse the table (no headers ...): the pass has happened by then
			case "markdown":
				markdown.Wrap(t).RenderTo(io.Discard)
			case "texttable":
				texttable.Wrap(t).RenderTo(io.Discard)
			default:
				t.InvokeRenderCallbacks()
			}
		case "seedcell":
			var rowsWithCells []*gen.MRow
			for _, mr := range w.m.All {
				if !mr.Sep && !mr.NilCells {
					rowsWithCells = append(rowsWithCells, mr)
				}
			}
			if len(rowsWithCells) == 0 {
				break
			}
			a := rowsWithCells[((st.Ref%len(rowsWithCells))+len(rowsWithCells))%len(rowsWithCells)]
			b := rowsWithCells[((st.Col%len(rowsWithCells))+len(rowsWithCells))%len(rowsWithCells)]
			cell := tabular.NewCell("seed")
			var registrar tabular.Table = t
			if st.Via2 {
				registrar = other
			}
			// N callbacks on the seed (lists of 3, 5, 6, 7, 9 entries have room to spare: the copies must not meet there)
			nseed := st.N
			if nseed < 1 {
				nseed = 1
			}
			var ids []int
			for k := 0; k < nseed; k++ {
				w.nextID++
				id := w.nextID
				proto := &reg{id: id, owner: "cell", when: wRender, target: tItself}
				if err := registrar.RegisterPropertyCallback(&cell, tabular.CB_AT_RENDER, tabular.CB_ON_ITSELF, &recorder{r: proto, w: w}); err != nil {
					return ev.V("step %d: registering a render callback on a stand-alone cell failed: %v", step, err)
				}
				byID[id] = proto
				ids = append(ids, id)
			}
			for _, mr := range []*gen.MRow{a, b} {
				// the add itself may fire the row's add-time cell callbacks
				w.predictOp(gen.Op{K: "rowadd", Ref: w.rowIndex(mr), Items: []gen.Item{gen.S("seed")}}, &pred)
				mr.Real.Add(cell)
				mr.Cells = append(mr.Cells, gen.MCell{It: gen.S("seed"), Live: gen.Materialise(gen.S("seed")), Text: "seed"})
				if mr.Attached {
					mr.LateAdds++
					if len(mr.Cells) > w.m.MaxEver {
						w.m.MaxEver = len(mr.Cells)
					}
				}
				for _, id := range ids {
					w.regs = append(w.regs, &reg{id: id, owner: "cell", row: mr, cell: len(mr.Cells) - 1, when: wRender, target: tItself})
				}
			}
			if st.Target%3 != 0 {
				// one more render callback on each live copy: it belongs to that copy only
				for _, mr := range []*gen.MRow{a, b} {
					cells := mr.Real.Cells()
					j := len(mr.Cells) - 1
					w.nextID++
					r2 := &reg{id: w.nextID, owner: "cell", row: mr, cell: j, when: wRender, target: tItself}
					if err := t.RegisterPropertyCallback(&cells[j], tabular.CB_AT_RENDER, tabular.CB_ON_ITSELF, &recorder{r: r2, w: w}); err != nil {
						return ev.V("step %d: registering on a cell copy failed: %v", step, err)
					}
					w.regs = append(w.regs, r2)
					byID[r2.id] = r2
					if a == b {
						break
					}
				}
			}
		case "copyattached":
			// a by-value copy of a cell that already lives in an attached row (it has been through AddRow, callbacks and
			// all) is added to another row, or the same one: there it is a new cell like any other
			var srcs, dsts []*gen.MRow
			for _, mr := range w.m.All {
				if mr.Sep || mr.NilCells {
					continue
				}
				dsts = append(dsts, mr)
				if mr.Attached && len(mr.Cells) > 0 && len(mr.Real.Cells()) == len(mr.Cells) {
					srcs = append(srcs, mr)
				}
			}
			if len(srcs) == 0 {
				break
			}
			src := srcs[((st.Ref%len(srcs))+len(srcs))%len(srcs)]
			dst := dsts[((st.Col%len(dsts))+len(dsts))%len(dsts)]
			if len(dst.Real.Cells()) != len(dst.Cells) {
				break
			}
			j := ((st.Target % len(src.Cells)) + len(src.Cells)) % len(src.Cells)
			if st.N > 0 {
				// prefer a source cell that owns render callbacks of its own: the copy carries them, and what is registered
				// afterwards on the one must not show on the other
				type at struct {
					r *gen.MRow
					j int
				}
				var owning []at
				for _, r := range w.regs {
					if r.owner == "cell" && r.when == wRender && r.target == tItself && r.row != nil && r.row.Attached && !r.row.Sep && !r.row.NilCells &&
						r.cell < len(r.row.Cells) && len(r.row.Real.Cells()) == len(r.row.Cells) {
						owning = append(owning, at{r.row, r.cell})
					}
				}
				if len(owning) > 0 {
					pick := owning[((st.Ref%len(owning))+len(owning))%len(owning)]
					src, j = pick.r, pick.j
				}
			}
			cp := src.Real.Cells()[j] // a Cell value
			var copyOnly []*reg
			if st.N > 0 {
				// one more on the original, then one more on the free-standing copy (before it is added anywhere)
				w.nextID++
				rx := &reg{id: w.nextID, owner: "cell", row: src, cell: j, when: wRender, target: tItself}
				if err := t.RegisterPropertyCallback(&src.Real.Cells()[j], tabular.CB_AT_RENDER, tabular.CB_ON_ITSELF, &recorder{r: rx, w: w}); err != nil {
					return ev.V("step %d: registering on a live cell failed: %v", step, err)
				}
				byID[rx.id] = rx
				w.nextID++
				ry := &reg{id: w.nextID, owner: "cell", when: wRender, target: tItself}
				if err := t.RegisterPropertyCallback(&cp, tabular.CB_AT_RENDER, tabular.CB_ON_ITSELF, &recorder{r: ry, w: w}); err != nil {
					return ev.V("step %d: registering on a free-standing copy of a cell failed: %v", step, err)
				}
				byID[ry.id] = ry
				copyOnly = append(copyOnly, ry)
				// rx joins the registrations only after the clones have been taken (the copy was made before rx existed)
				w.lateRegs = append(w.lateRegs, rx)
			}
			w.predictOp(gen.Op{K: "rowadd", Ref: w.rowIndex(dst), Items: []gen.Item{src.Cells[j].It}}, &pred)
			dst.Real.Add(cp)
			dst.Cells = append(dst.Cells, src.Cells[j])
			if dst.Attached {
				dst.LateAdds++
				if len(dst.Cells) > w.m.MaxEver {
					w.m.MaxEver = len(dst.Cells)
				}
			}
			// what the source cell itself owned, the copy owns too
			var clones []*reg
			for _, r := range w.regs {
				if r.owner == "cell" && r.row == src && r.cell == j {
					clones = append(clones, &reg{id: r.id, owner: "cell", row: dst, cell: len(dst.Cells) - 1, when: r.when, target: r.target})
				}
			}
			w.regs = append(w.regs, clones...)
			for _, ry := range copyOnly {
				ry.row, ry.cell = dst, len(dst.Cells)-1
				w.regs = append(w.regs, ry)
			}
			w.regs = append(w.regs, w.lateRegs...)
			w.lateRegs = nil
		case "dense":
			// one slot gets crowded: N cell callbacks on the table and one on each of the first columns, all at the same time
			n := st.N
			if n < 1 {
				n = 3
			}
			when := st.When % 4
			mkreg := func(ownerKind string, col int, owner tabular.PropertyOwner) *ev.Violation {
				w.nextID++
				r := &reg{id: w.nextID, owner: ownerKind, col: col, when: when, target: tCell}
				if err := t.RegisterPropertyCallback(owner, whens[when], tabular.CB_ON_CELL, &recorder{r: r, w: w, fail: st.Err && r.id%2 == 0}); err != nil {
					return ev.V("step %d: registering %s failed: %v", step, w.describe(r), err)
				}
				w.regs = append(w.regs, r)
				byID[r.id] = r
				return nil
			}
			for k := 0; k < n; k++ {
				if v := mkreg("table", 0, t); v != nil {
					return v
				}
			}
			for col := 1; col <= t.NColumns() && col <= 3; col++ {
				if v := mkreg("column", col, t.Column(col)); v != nil {
					return v
				}
			}
		case "reg":
			r := &reg{owner: st.Owner, when: st.When % 4, target: st.Target % 3}
			var owner tabular.PropertyOwner
			pick := func() *gen.MRow {
				if len(w.m.All) == 0 {
					return nil
				}
				return w.m.All[((st.Ref%len(w.m.All))+len(w.m.All))%len(w.m.All)]
			}
			switch st.Owner {
			case "table":
				owner = t
			case "column":
				r.col = ((st.Col % (t.NColumns() + 1)) + t.NColumns() + 1) % (t.NColumns() + 1)
				owner = t.Column(r.col)
			case "row":
				if mr := pick(); mr != nil {
					r.row = mr
					owner = mr.Real
				}
			case "cell":
				if mr := pick(); mr != nil && len(mr.Cells) > 0 {
					cells := mr.Real.Cells()
					r.row, r.cell = mr, ((st.Col%len(mr.Cells))+len(mr.Cells))%len(mr.Cells)
					if r.cell < len(cells) {
						owner = &cells[r.cell]
					}
				}
			case "hdrrow":
				if w.hdrRow != nil && w.hdrRowGen == w.hdrGen && w.m.HeaderSet {
					r.hdrGen = w.hdrGen
					owner = w.hdrRow
				}
			case "hdrcell":
				hs := t.Headers()
				if len(hs) > 0 {
					r.cell, r.hdrGen = ((st.Col%len(hs))+len(hs))%len(hs), w.hdrGen
					owner = &hs[r.cell]
				}
			}
			if owner == nil {
				break
			}
			reps := st.N
			if reps < 1 {
				reps = 1
			}
			for rep := 0; rep < reps; rep++ {
				rr := *r
				r := &rr
				w.nextID++
				r.id = w.nextID
				var registrar tabular.Table = t
				if st.Via2 && st.Owner != "table" {
					// (a table named as owner through another table's method is ambiguous when it is a wrapper)
					registrar = other
				}
				if st.Bad != 0 {
					var berr error
					switch {
					case st.Bad == 1 && rep%2 == 0:
						berr = registrar.RegisterPropertyCallback(owner, whens[r.when], tabular.CB_ON_ROW+1, silent{})
					case st.Bad == 1:
						berr = registrar.RegisterPropertyCallback(owner, whens[r.when], tabular.CB_ON_ITSELF-1, silent{})
					default:
						berr = registrar.RegisterPropertyCallback(owner, tabular.CB_AT_RENDER_POSTCELL+1, targets[r.target], silent{})
					}
					if berr == nil {
						return ev.V("step %d: registering on a %s with an undeclared %s was accepted", step, st.Owner, map[int]string{1: "target", 2: "time"}[st.Bad])
					}
					continue
				}
				var cb tabular.PropertyCallback = &recorder{r: r, w: w, fail: st.Err && (reps == 1 || rep%2 == 0), grow: st.Grow && st.Owner == "table" && r.when == wAdd && r.target == tRow && rep == 0, lazy: st.Lazy && r.when != wAdd && rep == 0}
				if st.Func {
					cb = funcCB(cb.UpdateProperties)
				}
				err := registrar.RegisterPropertyCallback(owner, whens[r.when], targets[r.target], cb)
				unsupported := (st.Owner == "column" || st.Owner == "cell" || st.Owner == "hdrcell") && r.target == tRow
				if unsupported != (err != nil) {
					return ev.V("step %d: registering %s returned error %v; unsupported combination: %v", step, w.describe(r), err, unsupported)
				}
				if err == nil {
					w.regs = append(w.regs, r)
					byID[r.id] = r
				}
			}
		}
		what := st.K
		if st.K == "op" {
			what = st.Op.K
		}
		if v := compare(step, what, pred); v != nil {
			return v
		}
		// what callbacks wrote must be visible through the table
		for e, val := range w.marks {
			var got interface{}
			key := markKey{e.reg}
			switch {
			case e.obj == "T":
				got = t.GetProperty(key)
			case e.obj[0] == 'C':
				var n int
				fmt.Sscanf(string(e.obj), "C%d", &n)
				got = t.Column(n).GetProperty(key)
			case e.obj[0] == 'R':
				var n int
				fmt.Sscanf(string(e.obj), "R%d", &n)
				got = w.m.All[n].Real.GetProperty(key)
			case e.obj[0] == 'X':
				var n, j int
				fmt.Sscanf(string(e.obj), "X%d.%d", &n, &j)
				mr := w.m.All[n]
				if mr.Attached {
					cell, err := t.CellAt(tabular.CellLocation{Row: mr.Pos, Column: j + 1})
					if err != nil {
						return ev.V("step %d: CellAt for %s failed: %v", step, e.obj, err)
					}
					got = cell.GetProperty(key)
				} else {
					cells := mr.Real.Cells()
					got = (&cells[j]).GetProperty(key)
				}
			default:
				continue
			}
			if got != val {
				return ev.V("step %d: property written by registration %d on %s is not visible through the table afterwards (got %v want %v)", step, e.reg, e.obj, got, val)
			}
		}
		if st.K == "op" && st.Op.K == "hdr" {
			// a replaced header row takes its cells (and what was written on them) with it
			for e := range w.marks {
				if e.obj[0] == 'H' {
					delete(w.marks, e)
				}
			}
		}
	}
	return nil
}

func Classify(c Case) (bool, interface{}, []string) {
	var cl []string
	seen := map[string]bool{}
	add := func(s string) {
		if !seen[s] {
			seen[s] = true
			cl = append(cl, s)
		}
	}
	owners := map[string]bool{}
	renders, regs := 0, 0
	rowsSeen := false
	regBeforeRows := false
	for _, st := range c.Steps {
		switch st.K {
		case "op":
			if st.Op.K != "hdr" {
				rowsSeen = true
			}
			if st.Op.K == "rowadd" {
				add("row-add")
			}
		case "reg":
			regs++
			owners[st.Owner] = true
			add(fmt.Sprintf("reg-%s-w%d-t%d", st.Owner, st.When%4, st.Target%3))
			if st.Err {
				add("a-callback-reports-an-error")
			}
			if st.Grow && st.Owner == "table" && st.When%4 == wAdd && st.Target%3 == tRow {
				add("a-row-callback-adds-a-cell-to-the-row-being-attached")
			}
			if !rowsSeen {
				regBeforeRows = true
			}
		case "render":
			renders++
		case "seedcell":
			add("cell-with-callbacks-copied-into-two-rows")
			if st.N >= 3 && st.Target%3 != 0 {
				add("copies-of-a-cell-with-3-or-more-callbacks-each-get-one-more")
			}
		case "copyattached":
			add("copy-of-an-attached-cell-added-to-a-row")
		case "dense":
			add("crowded-slot")
		}
	}
	if regBeforeRows {
		add("registered-before-rows")
	}
	if renders >= 2 {
		add("two-or-more-passes")
	}
	if len(owners) >= 2 {
		add("registrations-on-different-owner-kinds")
	}
	nt := regs > 0 && (len(owners) >= 2 || regBeforeRows || renders >= 2)
	return nt, nil, cl
}
