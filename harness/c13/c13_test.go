package c13

import (
	"fmt"
	"os"
	"testing"

	"pgregory.net/rapid"

	"verif/harness/internal/ev"
	"verif/harness/internal/gen"
	"verif/harness/internal/h"
)

var prop = h.Prop[Case]{ID: ID, Check: CheckCase, Classify: Classify}

func TestMain(m *testing.M) { os.Exit(ev.Main(ID, m)) }

func TestReplay(t *testing.T) { prop.Replay(t, nil) }

var ownerKinds = []string{"table", "column", "row", "cell", "hdrcell", "hdrrow"}

func caseGen() *rapid.Generator[Case] {
	max := 16
	if h.Thorough() {
		max = 28
	}
	item := gen.StrItem(gen.TokASCII, 2)
	return rapid.Custom(func(t *rapid.T) Case {
		c := Case{Creator: rapid.SampledFrom([]string{"core", "core", "csv", "texttable", "markdown"}).Draw(t, "creator")}
		n := rapid.IntRange(2, max).Draw(t, "n")
		for i := 0; i < n; i++ {
			k := rapid.SampledFrom([]string{"op", "op", "op", "op", "reg", "reg", "reg", "reg", "render", "render", "seedcell", "dense", "hdrcapture", "update", "copyattached"}).Draw(t, "step")
			st := Step{K: k}
			switch k {
			case "hdrcapture":
				// an add-time row callback on the table is handed the header row (if the library does that); the row it
				// was handed then becomes the owner of render-time callbacks of its own
				c.Steps = append(c.Steps, Step{K: "reg", Owner: "table", When: 0, Target: 2})
				hop := gen.Op{K: "hdr"}
				for j, n := 0, rapid.IntRange(1, 3).Draw(t, "hcells"); j < n; j++ {
					hop.Items = append(hop.Items, item.Draw(t, "item"))
				}
				c.Steps = append(c.Steps, Step{K: "op", Op: &hop})
				for j, n := 0, rapid.IntRange(1, 3).Draw(t, "hregs"); j < n; j++ {
					c.Steps = append(c.Steps, Step{K: "reg", Owner: "hdrrow", When: rapid.IntRange(0, 3).Draw(t, "when"), Target: rapid.IntRange(0, 2).Draw(t, "target"), Err: rapid.IntRange(0, 3).Draw(t, "err") == 0})
				}
				continue
			case "op":
				op := gen.Op{K: rapid.SampledFrom([]string{"hdr", "rowitems", "rowitems", "rowitems", "sep", "appendnew", "newrow", "newrowsized", "rowadd", "rowadd", "rowadd", "addrow", "addrow", "zerorow", "prop"}).Draw(t, "kind")}
				switch op.K {
				case "prop":
					// the well-known column properties (alignment, skipable) and user keys: callbacks fire whatever the columns carry
					op.P = &gen.PropOp{Col: rapid.SampledFrom([]int{0, 0, 1, 2, -1}).Draw(t, "pcol"), Key: rapid.SampledFrom([]string{"skip", "skip", "align", "u0"}).Draw(t, "pkey"), Val: rapid.IntRange(0, 3).Draw(t, "pval")}
				case "hdr", "rowitems":
					ncell := rapid.IntRange(0, 3).Draw(t, "cells")
					if rapid.IntRange(0, 14).Draw(t, "wide") == 0 {
						ncell = rapid.IntRange(9, 22).Draw(t, "widecells") // cross the 10/20-entry column capacities
					}
					for j, k := 0, ncell; j < k; j++ {
						op.Items = append(op.Items, item.Draw(t, "item"))
					}
				case "rowadd":
					op.Ref = rapid.IntRange(0, 7).Draw(t, "ref")
					for j, k := 0, rapid.IntRange(1, 2).Draw(t, "cells"); j < k; j++ {
						op.Items = append(op.Items, item.Draw(t, "item"))
					}
				case "addrow":
					op.Ref = rapid.IntRange(0, 3).Draw(t, "ref")
				}
				st.Op = &op
			case "update":
				st.Ref = rapid.IntRange(0, 7).Draw(t, "ref")
				st.Col = rapid.IntRange(0, 3).Draw(t, "col")
			case "dense":
				st.When = rapid.IntRange(0, 3).Draw(t, "when")
				st.N = rapid.IntRange(1, 11).Draw(t, "n")
				st.Err = rapid.IntRange(0, 2).Draw(t, "err") == 0
			case "copyattached":
				st.Ref = rapid.IntRange(0, 7).Draw(t, "ref")
				st.Col = rapid.IntRange(0, 7).Draw(t, "dst")
				st.Target = rapid.IntRange(0, 3).Draw(t, "cell")
				st.N = rapid.IntRange(0, 1).Draw(t, "then-register-on-both")
			case "seedcell":
				st.Ref = rapid.IntRange(0, 7).Draw(t, "ref")
				st.Col = rapid.IntRange(0, 7).Draw(t, "ref2")
				st.Target = rapid.IntRange(0, 2).Draw(t, "followup")
				st.N = rapid.SampledFrom([]int{1, 1, 2, 3, 3, 4, 5, 6, 7, 9}).Draw(t, "nseed")
				st.Via2 = rapid.IntRange(0, 2).Draw(t, "via2") == 0
			case "reg":
				st.Owner = rapid.SampledFrom(ownerKinds).Draw(t, "owner")
				st.Ref = rapid.IntRange(0, 7).Draw(t, "ref")
				st.Col = rapid.SampledFrom([]int{0, 1, 2, 3, 4, -1, -1}).Draw(t, "col") // -1: the highest column / last cell
				st.When = rapid.IntRange(0, 3).Draw(t, "when")
				st.Target = rapid.IntRange(0, 2).Draw(t, "target")
				st.Via2 = rapid.IntRange(0, 4).Draw(t, "via2") == 0
				st.Err = rapid.IntRange(0, 3).Draw(t, "err") == 0
				st.Lazy = gen.Rarely(t, "lazy", 10)
				st.Func = rapid.IntRange(0, 3).Draw(t, "func") == 0
				if gen.Rarely(t, "bad", 12) {
					st.Bad = rapid.IntRange(1, 2).Draw(t, "bad-kind")
				}
				if gen.Rarely(t, "grower", 10) {
					st.Owner, st.When, st.Target, st.Grow = "table", 0, 2, true
				}
				if rapid.IntRange(0, 5).Draw(t, "many") == 0 {
					st.N = rapid.IntRange(2, 11).Draw(t, "n") // slices grow in steps: 3, 5, 9 entries leave spare capacity
				}
			case "render":
				st.Via = rapid.SampledFrom([]string{"invoke", "csv", "html", "json", "markdown", "texttable"}).Draw(t, "via")
			}
			c.Steps = append(c.Steps, st)
		}
		// always finish with a render pass
		c.Steps = append(c.Steps, Step{K: "render", Via: "invoke"})
		return c
	})
}

func TestProp(t *testing.T) { prop.Rapid(t, caseGen()) }

// shapes for the exhaustive registration matrix: a list of operations and the
// positions at which the registrations are made.
func shapes() [][]gen.Op {
	s := gen.S
	return [][]gen.Op{
		{{K: "rowitems", Items: []gen.Item{s("a")}}},
		{{K: "hdr", Items: []gen.Item{s("h")}}, {K: "rowitems", Items: []gen.Item{s("a"), s("b")}}, {K: "sep"}, {K: "rowitems", Items: []gen.Item{s("c")}}},
		{{K: "hdr", Items: []gen.Item{s("h"), s("i")}}, {K: "newrow"}, {K: "rowadd", Ref: -1, Items: []gen.Item{s("p")}}, {K: "addrow"}, {K: "rowadd", Ref: -1, Items: []gen.Item{s("late")}}},
		{{K: "appendnew"}, {K: "rowadd", Ref: -1, Items: []gen.Item{s("x"), s("y")}}, {K: "rowitems"}},
	}
}

// TestEnum: every (owner kind x time x target) registration singly, and every ordered pair, at every
// registration point of every shape, followed by two render passes.
func TestEnum(t *testing.T) {
	pairs := h.EnvInt("VERIF_C13_PAIRS", 1) != 0
	shard, shards := h.Shard()
	type rg struct {
		owner        string
		when, target int
	}
	var all []rg
	for _, o := range []string{"table", "column", "row", "cell"} {
		for w := 0; w < 4; w++ {
			for tg := 0; tg < 3; tg++ {
				all = append(all, rg{o, w, tg})
			}
		}
	}
	var n int64
	idx := 0
	run := func(ops []gen.Op, at int, regs []rg) {
		idx++
		if idx%shards != shard {
			return
		}
		var c Case
		for i, op := range ops {
			if i == at {
				for ri, r := range regs {
					c.Steps = append(c.Steps, Step{K: "reg", Owner: r.owner, Ref: -1, Col: 1, When: r.when, Target: r.target, Err: len(regs) > 1 && ri == 0})
				}
			}
			op := op
			c.Steps = append(c.Steps, Step{K: "op", Op: &op})
		}
		if at >= len(ops) {
			for ri, r := range regs {
				c.Steps = append(c.Steps, Step{K: "reg", Owner: r.owner, Ref: -1, Col: 1, When: r.when, Target: r.target, Err: len(regs) > 1 && ri == 0})
			}
		}
		vias := []string{"csv", "html", "json", "markdown", "texttable"}
		c.Steps = append(c.Steps, Step{K: "render", Via: "invoke"}, Step{K: "render", Via: vias[idx%len(vias)]})
		n++
		if v := prop.Eval(c); v != nil {
			t.Fatalf("VIOLATION %s", ID)
		}
	}
	for _, ops := range shapes() {
		for at := 0; at <= len(ops); at++ {
			for _, a := range all {
				run(ops, at, []rg{a})
				if pairs {
					for _, b := range all {
						run(ops, at, []rg{a, b})
					}
				}
			}
		}
	}
	ev.R().Sub(ev.SubRun{Name: "registration-matrix", Bound: fmt.Sprintf("48 registrations singly%s x every registration point of %d shapes, two render passes each", map[bool]string{true: " and all 2304 ordered pairs (the first of a pair reports an error after doing its work)", false: ""}[pairs], len(shapes())), Cases: n, Exhaustive: true})
}
