// Package c17: the decoration registry is safe under concurrency and fails closed.
package c17

import (
	"fmt"
	"os"
	"sort"
	"strings"
	"sync"
	"sync/atomic"
	"time"

	"github.com/anishathalye/porcupine"

	"go.pennock.tech/tabular"
	"go.pennock.tech/tabular/auto"
	"go.pennock.tech/tabular/texttable"
	"go.pennock.tech/tabular/texttable/decoration"

	"verif/harness/internal/ev"
	"verif/harness/internal/gen"
)

const ID = "C17"

// Op is one registry operation.  Names index a small per-case pool; Val
// selects the decoration (its identity is carried by the unused-for-render
// Horizontal field and, visibly, by its TopLeft glyph).
type Op struct {
	K    string `json:"k"` // register | named | list | render | styles | hold | renderheld
	Name int    `json:"name,omitempty"`
	Val  int    `json:"val,omitempty"`
}

type Case struct {
	Kind   string    `json:"kind"`             // seq | conc | burst | unknown
	Prefix string    `json:"prefix,omitempty"` // a | m | zz : where the case's names sort relative to the built-ins
	Ops    []Op      `json:"ops,omitempty"`    // seq
	Progs  [][]Op    `json:"progs,omitempty"`  // conc: one program per goroutine
	G      int       `json:"g,omitempty"`      // burst: goroutines
	K      int       `json:"k,omitempty"`      // burst: registrations per goroutine
	Rounds int       `json:"rounds,omitempty"` // burst
	Names  []gen.Str `json:"names,omitempty"`  // unknown: names to try
}

var caseSeq int64

const emptyMark = -1 // model value of a name registered with the empty decoration

const poolSize = 4

// the registry is process-global and never shrinks: every case works under a fresh prefix
func names(prefix string) []string {
	n := atomic.AddInt64(&caseSeq, 1)
	out := make([]string, poolSize)
	for i := range out {
		out[i] = fmt.Sprintf("%s%06d-%c", prefix, n, 'a'+i)
	}
	return out
}

func deco(val int) decoration.Decoration {
	if val < 0 {
		return decoration.EmptyDecoration // registering the empty decoration under a name is a registration like any other
	}
	g := gen.Glyphs[val%len(gen.Glyphs)]
	d := decoration.Decoration{Horizontal: fmt.Sprintf("H%d", val), TopLeft: g}
	if val%3 != 2 {
		d.Populate() // every third one is registered as it is, key points only: what is looked up is what was registered
	}
	return d
}

func builtinSet() map[string]bool {
	m := map[string]bool{}
	for _, b := range gen.BuiltinDecos {
		m[b] = true
	}
	return m
}

// checkListing: strictly sorted (hence duplicate-free); projected onto mine+builtins it equals want.
func checkListing(list []string, mine map[string]bool, want map[string]bool) *ev.Violation {
	for i := 1; i < len(list); i++ {
		if list[i-1] >= list[i] {
			return ev.V("listing is not sorted and duplicate-free at %d: %q then %q", i, list[i-1], list[i])
		}
	}
	bi := builtinSet()
	got := map[string]bool{}
	for _, n := range list {
		if mine[n] || bi[n] {
			got[n] = true
		}
	}
	for n := range bi {
		if !got[n] {
			return ev.V("listing lacks the built-in %q: %v", n, list)
		}
	}
	for n := range want {
		if !got[n] {
			return ev.V("listing lacks the registered name %q: %v", n, list)
		}
	}
	for n := range got {
		if mine[n] && !want[n] {
			return ev.V("listing contains %q which was never registered", n)
		}
	}
	return nil
}

func renderBy(name string) (glyph string, err error) {
	tt := texttable.New()
	tt.AddRowItems("x")
	_, serr := tt.SetDecorationNamed(name)
	out, rerr := tt.Render()
	if serr != nil || rerr != nil {
		if serr == nil || rerr == nil || out != "" {
			return "", fmt.Errorf("setter error %v, render error %v, output %q: an unknown name must fail both and render nothing", serr, rerr, out)
		}
		return "", nil
	}
	for _, r := range out {
		return string(r), nil
	}
	return "", fmt.Errorf("empty render")
}

func firstGlyph(d decoration.Decoration) string {
	for _, r := range d.TopLeft {
		return string(r)
	}
	return ""
}

// ---------------------------------------------------------------- sequential histories

func checkSeq(c Case) *ev.Violation {
	ns := names(c.Prefix)
	mine := map[string]bool{}
	for _, n := range ns {
		mine[n] = true
	}
	model := map[string]int{}
	type held struct {
		tt      *texttable.TextTable
		name    string
		unknown bool // the name was not registered when the table was set to it: it reported the error then
	}
	var helds []held
	for i, op := range c.Ops {
		name := ns[((op.Name%poolSize)+poolSize)%poolSize]
		switch op.K {
		case "hold":
			// a table is set to the name now and kept
			tt := texttable.New()
			tt.AddRowItems("x")
			_, err := tt.SetDecorationNamed(name)
			mv, known := model[name]
			if mv == emptyMark {
				// the name stands for the empty decoration: the table has no decoration and refuses to render
				// (whether the setter already says so is not fixed by the statement)
				helds = append(helds, held{tt, name, true})
				break
			}
			if known != (err == nil) {
				return ev.V("step %d: SetDecorationNamed(%q) error=%v although registered=%v", i+1, name, err, known)
			}
			helds = append(helds, held{tt, name, !known})
		case "renderheld":
			if len(helds) == 0 {
				break
			}
			hd := helds[op.Val%len(helds)]
			out, err := hd.tt.Render()
			if hd.unknown {
				// it reported the error when it was set; it keeps refusing, whatever has been registered since
				if err == nil || out != "" {
					return ev.V("step %d: a table set to %q while that name was unknown (it reported the error) later rendered: err=%v output=%q", i+1, hd.name, err, out)
				}
			} else if err != nil || out == "" {
				return ev.V("step %d: a table set to the registered name %q fails to render: %v", i+1, hd.name, err)
			}
		case "register":
			decoration.RegisterDecorationName(name, deco(op.Val))
			model[name] = op.Val + 1
			if op.Val < 0 {
				model[name] = emptyMark
			}
		case "named":
			got := decoration.Named(name)
			if v, ok := model[name]; ok {
				if v == emptyMark {
					v = 0 // deco(-1)
				}
				if got != deco(v-1) {
					return ev.V("step %d: Named(%q) is not the decoration registered last under that name (Horizontal %q, want %q)", i+1, name, got.Horizontal, deco(v-1).Horizontal)
				}
			} else if got != decoration.EmptyDecoration {
				return ev.V("step %d: Named(%q) for a never-registered name is not the empty decoration: %+v", i+1, name, got)
			}
		case "render":
			if model[name] == emptyMark {
				tt := texttable.New()
				tt.AddRowItems("x")
				tt.SetDecorationNamed(name)
				if out, rerr := tt.Render(); rerr == nil || out != "" {
					return ev.V("step %d: a table set to %q, which stands for the empty decoration, rendered: err=%v output=%q", i+1, name, rerr, out)
				}
				break
			}
			g, err := renderBy(name)
			if err != nil {
				return ev.V("step %d: render by name %q: %v", i+1, name, err)
			}
			if v, ok := model[name]; ok {
				if g != firstGlyph(deco(v-1)) {
					return ev.V("step %d: a table set to %q rendered with corner %q, the decoration registered last has %q", i+1, name, g, firstGlyph(deco(v-1)))
				}
			} else if g != "" {
				return ev.V("step %d: a table set to the never-registered name %q rendered (corner %q)", i+1, name, g)
			}
		case "styles":
			// another package builds on the listing: it may append to and sort what it was handed
			ls := auto.ListStyles()
			if !sort.StringsAreSorted(ls) {
				return ev.V("step %d: auto.ListStyles is not sorted: %v", i+1, ls)
			}
		case "list":
			// the listing handed out belongs to the caller: scribbling on it must not affect the registry
			l := decoration.RegisteredDecorationNames()
			l = append(l, "zzzz-appended-by-caller", "aaaa-appended-by-caller")
			sort.Strings(l)
			for k := range l {
				if k%2 == 0 {
					l[k] = "scribbled-by-caller"
				}
			}
		}
		// the listing is compared after list operations and after the last step (the registry only grows,
		// so a listing costs more with every case run in this process)
		if op.K == "list" || op.K == "styles" || i == len(c.Ops)-1 {
			want := map[string]bool{}
			for n := range model {
				want[n] = true
			}
			if v := checkListing(decoration.RegisteredDecorationNames(), mine, want); v != nil {
				return ev.V("step %d (%s): %s", i+1, op.K, v.Msg)
			}
		}
	}
	// built-ins resolve to their constructors throughout
	if decoration.Named(decoration.D_UTF8_LIGHT) != decoration.UTF8BoxLight() || decoration.Named(decoration.D_NONE) != decoration.NoBox() {
		return ev.V("a built-in name no longer resolves to its decoration")
	}
	return nil
}

// ---------------------------------------------------------------- concurrent histories + linearizability

type regIn struct {
	k    string
	name string
	val  int
}

// state of the sequential specification: "name=val;" pairs, sorted
func stGet(st string, name string) int {
	for _, kv := range strings.Split(st, ";") {
		if strings.HasPrefix(kv, name+"=") {
			var v int
			fmt.Sscanf(kv[len(name)+1:], "%d", &v)
			return v
		}
	}
	return 0
}

func stSet(st string, name string, val int) string {
	var kvs []string
	for _, kv := range strings.Split(st, ";") {
		if kv != "" && !strings.HasPrefix(kv, name+"=") {
			kvs = append(kvs, kv)
		}
	}
	kvs = append(kvs, fmt.Sprintf("%s=%d", name, val))
	sort.Strings(kvs)
	return strings.Join(kvs, ";")
}

func stNames(st string) string {
	var ns []string
	for _, kv := range strings.Split(st, ";") {
		if kv != "" {
			ns = append(ns, kv[:strings.Index(kv, "=")])
		}
	}
	sort.Strings(ns)
	return strings.Join(ns, ",")
}

var regModel = porcupine.Model{
	Init: func() interface{} { return "" },
	Step: func(state, input, output interface{}) (bool, interface{}) {
		st := state.(string)
		in := input.(regIn)
		switch in.k {
		case "register":
			return true, stSet(st, in.name, in.val)
		case "named":
			return output.(int) == stGet(st, in.name), st
		case "render":
			// observed: the corner glyph of the decoration the table rendered with ("" = refused to render)
			want := ""
			if v := stGet(st, in.name); v > 0 {
				want = firstGlyph(deco(v - 1))
			}
			return output.(string) == want, st
		case "list":
			return output.(string) == stNames(st), st
		}
		return false, st
	},
	Equal: func(a, b interface{}) bool { return a.(string) == b.(string) },
}

func checkConc(c Case) *ev.Violation {
	if p := os.Getenv("VERIF_FAIL_OUT"); p != "" {
		ev.WriteCase(p+".running", ID, c, "the process died while this case was running (data race reported by the Go race detector, or a fatal runtime error)")
		defer os.Remove(p + ".running")
	}
	ns := names(c.Prefix)
	mine := map[string]bool{}
	for _, n := range ns {
		mine[n] = true
	}
	// values are made unique per (goroutine, step) so that reads identify the write they saw
	var clock int64
	var mu sync.Mutex
	var history []porcupine.Operation
	var bad *ev.Violation
	var wg sync.WaitGroup
	var start sync.WaitGroup
	start.Add(1)
	for g, prog := range c.Progs {
		wg.Add(1)
		go func(g int, prog []Op) {
			defer wg.Done()
			start.Wait()
			for si, op := range prog {
				name := ns[((op.Name%poolSize)+poolSize)%poolSize]
				val := g*100 + si + 1 // unique, >= 1
				in := regIn{k: op.K, name: name, val: val}
				var out interface{}
				call := atomic.AddInt64(&clock, 1)
				switch op.K {
				case "register":
					decoration.RegisterDecorationName(name, deco(val-1))
					out = 0
				case "named":
					d := decoration.Named(name)
					v := 0
					if d != decoration.EmptyDecoration {
						if _, err := fmt.Sscanf(d.Horizontal, "H%d", &v); err != nil {
							v = -1
						} else {
							v++
							if d != deco(v-1) {
								v = -1 // torn or foreign value
							}
						}
					}
					out = v
				case "render":
					gl, err := renderBy(name)
					if err != nil {
						gl = "!" + err.Error()
					}
					out = gl
				case "list":
					l := decoration.RegisteredDecorationNames()
					var proj []string
					for i, n := range l {
						if i > 0 && l[i-1] >= n {
							mu.Lock()
							bad = ev.V("a listing taken during concurrent registration is not sorted and duplicate-free: %v", l)
							mu.Unlock()
						}
						if mine[n] {
							proj = append(proj, n)
						}
					}
					out = strings.Join(proj, ",")
				}
				ret := atomic.AddInt64(&clock, 1)
				mu.Lock()
				history = append(history, porcupine.Operation{ClientId: g, Input: in, Call: call, Output: out, Return: ret})
				mu.Unlock()
			}
		}(g, prog)
	}
	start.Done()
	wg.Wait()
	if bad != nil {
		return bad
	}
	// quiescent reads: force "the latest once registrations have finished"
	rot := int(atomic.LoadInt64(&caseSeq)) % len(ns)
	for i := range ns {
		n := ns[(i+rot)%len(ns)]
		d := decoration.Named(n)
		v := 0
		if d != decoration.EmptyDecoration {
			fmt.Sscanf(d.Horizontal, "H%d", &v)
			v++
		}
		call := atomic.AddInt64(&clock, 1)
		ret := atomic.AddInt64(&clock, 1)
		history = append(history, porcupine.Operation{ClientId: len(c.Progs), Input: regIn{k: "named", name: n}, Call: call, Output: v, Return: ret})
	}
	l := decoration.RegisteredDecorationNames()
	var proj []string
	for _, n := range l {
		if mine[n] {
			proj = append(proj, n)
		}
	}
	call := atomic.AddInt64(&clock, 1)
	ret := atomic.AddInt64(&clock, 1)
	history = append(history, porcupine.Operation{ClientId: len(c.Progs), Input: regIn{k: "list"}, Call: call, Output: strings.Join(proj, ","), Return: ret})
	res := porcupine.CheckOperationsTimeout(regModel, history, 20*time.Second)
	if res == porcupine.Illegal {
		var sb strings.Builder
		sort.Slice(history, func(i, j int) bool { return history[i].Call < history[j].Call })
		for _, h := range history {
			fmt.Fprintf(&sb, "  g%d [%d,%d] %+v -> %v\n", h.ClientId, h.Call, h.Return, h.Input, h.Output)
		}
		return ev.V("the recorded history of concurrent registry calls is not linearizable against the map specification (a lookup returned something never registered under that name, a stale value after registrations finished, or a listing missing/inventing a name)\n%s", sb.String())
	}
	if res == porcupine.Unknown {
		ev.R().Count("linearizability-check-timeout", 1)
	}
	return nil
}

// ---------------------------------------------------------------- bursts: final state after concurrent registration

func checkBurst(c Case) *ev.Violation {
	if p := os.Getenv("VERIF_FAIL_OUT"); p != "" {
		ev.WriteCase(p+".running", ID, c, "the process died while this case was running (data race reported by the Go race detector, or a fatal runtime error)")
		defer os.Remove(p + ".running")
	}
	n := atomic.AddInt64(&caseSeq, 1)
	G, K := c.G, c.K
	nm := make([]string, G)
	mine := map[string]bool{}
	for g := range nm {
		nm[g] = fmt.Sprintf("%sb%06d-%02d", c.Prefix, n, g)
		mine[nm[g]] = true
	}
	for round := 0; round < c.Rounds; round++ {
		var wg sync.WaitGroup
		var start sync.WaitGroup
		start.Add(1)
		for g := 0; g < G; g++ {
			wg.Add(1)
			go func(g int) {
				defer wg.Done()
				start.Wait()
				for k := 0; k < K; k++ {
					decoration.RegisterDecorationName(nm[g], deco(round*K+k))
				}
			}(g)
		}
		// readers look names up while they are being overwritten (whatever a lookup remembers must not outlive the overwrite)
		var stopReaders int32
		var rwg sync.WaitGroup
		for r := 0; r < 2; r++ {
			rwg.Add(1)
			go func(r int) {
				defer rwg.Done()
				start.Wait()
				for i := 0; atomic.LoadInt32(&stopReaders) == 0; i++ {
					_ = decoration.Named(nm[(i*7+r+round)%G])
				}
			}(r)
		}
		start.Done()
		wg.Wait()
		atomic.StoreInt32(&stopReaders, 1)
		rwg.Wait()
		// registrations have finished: every lookup returns the latest, the listing has every name
		want := deco(round*K + K - 1)
		for i := 0; i < G; i++ {
			g := (i + round) % G // start somewhere else every round: a remembered lookup is displaced by the first other lookup
			if got := decoration.Named(nm[g]); got != want {
				return ev.V("round %d: after %d goroutines finished registering, Named(%q) has Horizontal %q, the latest registration was %q", round, G, nm[g], got.Horizontal, want.Horizontal)
			}
		}
		if v := checkListing(decoration.RegisteredDecorationNames(), mine, mine); v != nil {
			return ev.V("round %d: %s", round, v.Msg)
		}
	}
	return nil
}

// ---------------------------------------------------------------- unknown names fail closed

func checkUnknown(c Case) *ev.Violation {
	reg := map[string]bool{}
	for _, n := range decoration.RegisteredDecorationNames() {
		reg[n] = true
	}
	for _, nm := range c.Names {
		name := string(nm)
		if reg[name] {
			continue
		}
		tt := texttable.New()
		tt.AddHeaders("h").AddRowItems("x")
		// whatever the table was set to before (nothing, a known name, an explicit decoration), an unknown name fails closed
		switch len(name) % 3 {
		case 1:
			if _, err := tt.SetDecorationNamed(decoration.D_UTF8_LIGHT); err != nil {
				return ev.V("SetDecorationNamed of a built-in failed: %v", err)
			}
			tt.Render()
		case 2:
			tt.SetDecoration(decoration.ASCIIBoxSimple())
		}
		ret, err := tt.SetDecorationNamed(name)
		if err == nil {
			return ev.V("SetDecorationNamed(%q) of an unknown name returned no error", name)
		}
		if ret == nil {
			return ev.V("SetDecorationNamed(%q) returned a nil table", name)
		}
		for _, r := range []*texttable.TextTable{tt, ret} {
			out, rerr := r.Render()
			if rerr == nil || out != "" {
				return ev.V("a table set to the unknown decoration %q rendered: err=%v output=%q", name, rerr, out)
			}
		}
		var tab tabular.Table = tt
		_ = tab
		// the same through auto: "texttable.NAME" sets a text table to the decoration NAME, whatever NAME looks like
		if !strings.Contains(name, ".") {
			rt := auto.New("texttable." + name)
			rt.AddHeaders("h").AddRowItems("x")
			if _, isText := rt.(*texttable.TextTable); !isText {
				return ev.V("auto.New(%q) is a %T, not a text table", "texttable."+name, rt)
			}
			if out, rerr := rt.Render(); rerr == nil || out != "" {
				return ev.V("auto.New(%q), a text table set to the unknown decoration %q, rendered: err=%v output=%q", "texttable."+name, name, rerr, out)
			}
		}
	}
	return nil
}

// checkFresh must be the first thing that touches the registry in its process: an application overwrites a
// built-in name before anything has looked one up; from then on that name means the application's decoration.
func checkFresh(c Case) *ev.Violation {
	if !atomic.CompareAndSwapInt64(&freshUsed, 0, 1) {
		return nil // only meaningful once per process
	}
	name := gen.BuiltinDecos[c.G%len(gen.BuiltinDecos)]
	d := deco(c.K)
	decoration.RegisterDecorationName(name, d)
	if got := decoration.Named(name); got != d {
		return ev.V("a process whose first registry operation overwrites the built-in %q reads back Horizontal %q, not its own decoration", name, got.Horizontal)
	}
	l := decoration.RegisteredDecorationNames()
	for i := 1; i < len(l); i++ {
		if l[i-1] >= l[i] {
			return ev.V("listing not sorted/duplicate-free: %v", l)
		}
	}
	have := map[string]bool{}
	for _, n := range l {
		have[n] = true
	}
	for _, b := range gen.BuiltinDecos {
		if !have[b] {
			return ev.V("listing lacks built-in %q: %v", b, l)
		}
	}
	if got := decoration.Named(name); got != d {
		return ev.V("after a listing, %q no longer resolves to the application's decoration", name)
	}
	g, err := renderBy(name)
	if err != nil || g != firstGlyph(d) {
		return ev.V("a table set to %q renders with corner %q (err %v), the application's decoration has %q", name, g, err, firstGlyph(d))
	}
	return nil
}

var freshUsed int64

func CheckCase(c Case) *ev.Violation {
	switch c.Kind {
	case "fresh":
		return checkFresh(c)
	case "seq":
		return checkSeq(c)
	case "conc":
		// operations that take microseconds: if they are still not back after half a minute, look for a deadlock
		return ev.Watch(30*time.Second, "go.pennock.tech/tabular", func() *ev.Violation { return checkConc(c) })
	case "burst":
		return ev.Watch(60*time.Second, "go.pennock.tech/tabular", func() *ev.Violation { return checkBurst(c) })
	case "unknown":
		return checkUnknown(c)
	}
	return nil
}

func Classify(c Case) (bool, interface{}, []string) {
	cl := []string{"kind-" + c.Kind, "prefix-" + c.Prefix}
	nt := false
	switch c.Kind {
	case "seq":
		regs := map[int]int{}
		for _, op := range c.Ops {
			if op.K == "register" {
				regs[op.Name%poolSize]++
			}
		}
		for _, n := range regs {
			if n > 1 {
				nt = true
				cl = append(cl, "overwrite")
			}
		}
	case "conc":
		writers := map[int]map[int]bool{}
		lists, regs := 0, 0
		for g, p := range c.Progs {
			for _, op := range p {
				if op.K == "register" {
					regs++
					if writers[op.Name%poolSize] == nil {
						writers[op.Name%poolSize] = map[int]bool{}
					}
					writers[op.Name%poolSize][g] = true
				}
				if op.K == "list" {
					lists++
				}
			}
		}
		for _, w := range writers {
			if len(w) >= 2 {
				nt = true
				cl = append(cl, "same-name-written-by-two-goroutines")
			}
		}
		if lists > 0 && regs > 0 {
			nt = true
			cl = append(cl, "listing-overlaps-registration")
		}
		cl = append(cl, fmt.Sprintf("goroutines-%d", len(c.Progs)))
	case "burst":
		nt = c.G >= 2
	case "unknown":
		nt = len(c.Names) > 0
	}
	return nt, nil, cl
}
