package c17

import (
	"os"
	"strings"
	"testing"

	"pgregory.net/rapid"

	"verif/harness/internal/ev"
	"verif/harness/internal/gen"
	"verif/harness/internal/h"
)

var prop = h.Prop[Case]{ID: ID, Check: CheckCase, Classify: Classify}

func TestMain(m *testing.M) { os.Exit(ev.Main(ID, m)) }

func TestReplay(t *testing.T) { prop.Replay(t, nil) }

var prefixes = []string{"a", "m", "zz", "zz", "v"}

func opGen(kinds []string) *rapid.Generator[Op] {
	return rapid.Custom(func(t *rapid.T) Op {
		return Op{K: rapid.SampledFrom(kinds).Draw(t, "k"), Name: rapid.IntRange(0, poolSize-1).Draw(t, "name"), Val: rapid.IntRange(0, 30).Draw(t, "val")}
	})
}

func seqGen() *rapid.Generator[Case] {
	og := opGen([]string{"register", "register", "register", "named", "named", "list", "render", "styles", "hold", "hold", "renderheld", "renderheld"})
	return rapid.Custom(func(t *rapid.T) Case {
		c := Case{Kind: "seq", Prefix: rapid.SampledFrom(prefixes).Draw(t, "prefix"), Ops: rapid.SliceOfN(og, 1, 20).Draw(t, "ops")}
		for i := range c.Ops {
			if c.Ops[i].K == "register" && gen.Rarely(t, "empty", 8) {
				c.Ops[i].Val = -1 // the empty decoration
			}
		}
		return c
	})
}

func concGen() *rapid.Generator[Case] {
	og := opGen([]string{"register", "register", "register", "named", "named", "list", "render"})
	return rapid.Custom(func(t *rapid.T) Case {
		g := rapid.IntRange(2, 6).Draw(t, "goroutines")
		c := Case{Kind: "conc", Prefix: rapid.SampledFrom(prefixes).Draw(t, "prefix")}
		for i := 0; i < g; i++ {
			c.Progs = append(c.Progs, rapid.SliceOfN(og, 3, 9).Draw(t, "prog"))
		}
		return c
	})
}

func burstGen() *rapid.Generator[Case] {
	return rapid.Custom(func(t *rapid.T) Case {
		return Case{Kind: "burst", Prefix: rapid.SampledFrom(prefixes).Draw(t, "prefix"), G: rapid.IntRange(2, 32).Draw(t, "g"), K: rapid.IntRange(1, 3).Draw(t, "k"),
			Rounds: rapid.IntRange(20, h.EnvInt("VERIF_C17_BURST_ROUNDS", 60)).Draw(t, "rounds")}
	})
}

func unknownGen() *rapid.Generator[Case] {
	nm := rapid.Custom(func(t *rapid.T) gen.Str {
		return gen.Str(gen.StringOf([]string{"", "utf8", "utf8-light ", "UTF8-LIGHT", "none.", "texttable", "csv", "html", "json", "markdown", "CSV", "Texttable", "x", "-", "utf8-heavy\x00", " ", "ascii", "ascii-simple-", "Z"}, 0, 2).Draw(t, "name"))
	})
	// look-alikes of the names that ARE registered: qualified, padded, re-cased, truncated, doubled
	variant := rapid.Custom(func(t *rapid.T) gen.Str {
		base := rapid.SampledFrom(gen.BuiltinDecos).Draw(t, "base")
		switch rapid.IntRange(0, 11).Draw(t, "variant") {
		case 0:
			return gen.Str("texttable." + base)
		case 1:
			return gen.Str(base + ".x")
		case 2:
			return gen.Str("." + base)
		case 3:
			return gen.Str(base + " ")
		case 4:
			return gen.Str(" " + base)
		case 5:
			return gen.Str(strings.ToUpper(base))
		case 6:
			return gen.Str(strings.ToUpper(base[:1]) + base[1:])
		case 7:
			return gen.Str(base[:len(base)-1])
		case 8:
			return gen.Str(base + base)
		case 9:
			return gen.Str("decoration." + base)
		case 10:
			return gen.Str(base + "\n")
		}
		return gen.Str("auto." + base)
	})
	return rapid.Custom(func(t *rapid.T) Case {
		names := append([]gen.Str{""}, rapid.SliceOfN(nm, 1, 5).Draw(t, "names")...)
		names = append(names, rapid.SliceOfN(variant, 1, 4).Draw(t, "variants")...)
		return Case{Kind: "unknown", Names: names}
	})
}

// TestFresh runs alone in its own process (one case): the very first registry operation overwrites a built-in name.
func TestFresh(t *testing.T) {
	shard, _ := h.Shard()
	c := Case{Kind: "fresh", G: shard, K: 7 + shard}
	if v := prop.Eval(c); v != nil {
		t.Fatalf("VIOLATION %s", ID)
	}
}

func TestSeq(t *testing.T)     { prop.Rapid(t, seqGen()) }
func TestConc(t *testing.T)    { prop.Rapid(t, concGen()) }
func TestBurst(t *testing.T)   { prop.Rapid(t, burstGen()) }
func TestUnknown(t *testing.T) { prop.Rapid(t, unknownGen()) }
