package c17

import (
	"os"
	"testing"

	"pgregory.net/rapid"

	"verif/harness/internal/ev"
	"verif/harness/internal/gen"
	"verif/harness/internal/h"
)

var prop = h.Prop[Case]{ID: ID, Check: CheckCase, Classify: Classify}

func TestMain(m *testing.M) { os.Exit(ev.Main(ID, m)) }

func TestReplay(t *testing.T) { prop.Replay(t, nil) }

var prefixes = []string{"a", "m", "zz", "zz", "v"}

func opGen(kinds []string) *rapid.Generator[Op] {
	return rapid.Custom(func(t *rapid.T) Op {
		return Op{K: rapid.SampledFrom(kinds).Draw(t, "k"), Name: rapid.IntRange(0, poolSize-1).Draw(t, "name"), Val: rapid.IntRange(0, 30).Draw(t, "val")}
	})
}

func seqGen() *rapid.Generator[Case] {
	og := opGen([]string{"register", "register", "register", "named", "named", "list", "render", "styles", "hold", "hold", "renderheld", "renderheld"})
	return rapid.Custom(func(t *rapid.T) Case {
		return Case{Kind: "seq", Prefix: rapid.SampledFrom(prefixes).Draw(t, "prefix"), Ops: rapid.SliceOfN(og, 1, 20).Draw(t, "ops")}
	})
}

func concGen() *rapid.Generator[Case] {
	og := opGen([]string{"register", "register", "register", "named", "named", "list", "render"})
	return rapid.Custom(func(t *rapid.T) Case {
		g := rapid.IntRange(2, 6).Draw(t, "goroutines")
		c := Case{Kind: "conc", Prefix: rapid.SampledFrom(prefixes).Draw(t, "prefix")}
		for i := 0; i < g; i++ {
			c.Progs = append(c.Progs, rapid.SliceOfN(og, 3, 9).Draw(t, "prog"))
		}
		return c
	})
}

func burstGen() *rapid.Generator[Case] {
	return rapid.Custom(func(t *rapid.T) Case {
		return Case{Kind: "burst", Prefix: rapid.SampledFrom(prefixes).Draw(t, "prefix"), G: rapid.IntRange(2, 32).Draw(t, "g"), K: rapid.IntRange(1, 3).Draw(t, "k"),
			Rounds: rapid.IntRange(20, h.EnvInt("VERIF_C17_BURST_ROUNDS", 60)).Draw(t, "rounds")}
	})
}

func unknownGen() *rapid.Generator[Case] {
	nm := rapid.Custom(func(t *rapid.T) gen.Str {
		return gen.Str(gen.StringOf([]string{"", "utf8", "utf8-light ", "UTF8-LIGHT", "none.", "texttable", "csv", "x", "-", "utf8-heavy\x00", " ", "ascii", "ascii-simple-", "Z"}, 0, 2).Draw(t, "name"))
	})
	return rapid.Custom(func(t *rapid.T) Case {
		return Case{Kind: "unknown", Names: append([]gen.Str{""}, rapid.SliceOfN(nm, 1, 5).Draw(t, "names")...)}
	})
}

// TestFresh runs alone in its own process (one case): the very first registry operation overwrites a built-in name.
func TestFresh(t *testing.T) {
	shard, _ := h.Shard()
	c := Case{Kind: "fresh", G: shard, K: 7 + shard}
	if v := prop.Eval(c); v != nil {
		t.Fatalf("VIOLATION %s", ID)
	}
}

func TestSeq(t *testing.T)     { prop.Rapid(t, seqGen()) }
func TestConc(t *testing.T)    { prop.Rapid(t, concGen()) }
func TestBurst(t *testing.T)   { prop.Rapid(t, burstGen()) }
func TestUnknown(t *testing.T) { prop.Rapid(t, unknownGen()) }
