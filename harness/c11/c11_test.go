package c11

import (
	"os"
	"testing"

	"pgregory.net/rapid"

	"verif/harness/internal/ev"
	"verif/harness/internal/gen"
	"verif/harness/internal/h"
)

var prop = h.Prop[Case]{ID: ID, Check: CheckCase, Classify: Classify}

func TestMain(m *testing.M) { os.Exit(ev.Main(ID, m)) }

func TestReplay(t *testing.T) { prop.Replay(t, nil) }

func genA() *rapid.Generator[Case] {
	return rapid.Custom(func(t *rapid.T) Case {
		a := &CaseA{Ctor: rapid.SampledFrom([]string{"new", "zero", "zero", "nil"}).Draw(t, "ctor")}
		n := rapid.IntRange(1, 10).Draw(t, "n")
		next := 1
		for i := 0; i < n; i++ {
			op := OpA{K: rapid.SampledFrom([]string{"adderr", "adderr", "addlist", "addlist", "addlist", "errors", "merge", "reuse"}).Draw(t, "op"), On: rapid.IntRange(0, 1).Draw(t, "on")}
			switch op.K {
			case "adderr":
				if rapid.IntRange(0, 3).Draw(t, "nil") == 0 {
					op.Errs = []int{0}
				} else {
					op.Errs = []int{next}
					next++
				}
			case "addlist":
				switch rapid.IntRange(0, 5).Draw(t, "shape") {
				case 0:
					op.NilList = true
				case 1:
					op.Errs = []int{}
				default:
					k := rapid.IntRange(1, 5).Draw(t, "len")
					for j := 0; j < k; j++ {
						if rapid.IntRange(0, 2).Draw(t, "nilentry") == 0 {
							op.Errs = append(op.Errs, 0)
						} else {
							op.Errs = append(op.Errs, next)
							next++
						}
					}
				}
			}
			a.Ops = append(a.Ops, op)
		}
		return Case{A: a}
	})
}

func genB() *rapid.Generator[Case] {
	max := 18
	if h.Thorough() {
		max = 30
	}
	item := gen.StrItem(gen.TokASCII, 2)
	return rapid.Custom(func(t *rapid.T) Case {
		b := &CaseB{Creator: rapid.SampledFrom([]string{"core", "core", "csv", "texttable"}).Draw(t, "creator")}
		n := rapid.IntRange(2, max).Draw(t, "n")
		for i := 0; i < n; i++ {
			k := rapid.SampledFrom([]string{"op", "op", "op", "op", "rowerr", "reg", "reg", "render", "cbrow", "update", "ownrow"}).Draw(t, "step")
			st := StepB{K: k}
			switch k {
			case "cbrow":
				// a row of its own with callbacks of its own: made, given 1..3 failing callbacks in one slot, filled
				// (each Add is one round of that slot), perhaps noted an error on, and only then attached
				mk := rapid.SampledFrom([]string{"newrow", "newrowsized", "newrowcap", "newrowzero"}).Draw(t, "cbrow-make")
				b.Steps = append(b.Steps, StepB{K: "op", Op: &gen.Op{K: mk}})
				b.Steps = append(b.Steps, StepB{K: "reg", Owner: "row", Ref: -1, When: rapid.SampledFrom([]int{0, 0, 0, 1, 3}).Draw(t, "cbrow-when"), Target: 1, N: rapid.IntRange(1, 3).Draw(t, "cbrow-n")})
				if rapid.IntRange(0, 3).Draw(t, "cbrow-err-first") == 0 {
					b.Steps = append(b.Steps, StepB{K: "rowerr", Ref: -1, Shared: rapid.IntRange(0, 3).Draw(t, "cbrow-shared")})
				}
				for a, adds := 0, rapid.IntRange(1, 3).Draw(t, "cbrow-adds"); a < adds; a++ {
					b.Steps = append(b.Steps, StepB{K: "op", Op: &gen.Op{K: "rowadd", Ref: -1, Items: []gen.Item{item.Draw(t, "item")}}})
				}
				b.Steps = append(b.Steps, StepB{K: "op", Op: &gen.Op{K: "addrow", Ref: -1}})
				continue
			case "ownrow":
				// a row made on its own, told of errors (or of nil, or of nothing) while detached, attached, then told again
				mk := rapid.SampledFrom([]string{"newrow", "newrowsized", "newrowcap"}).Draw(t, "ownrow-make")
				b.Steps = append(b.Steps, StepB{K: "op", Op: &gen.Op{K: mk}})
				for a, pre := 0, rapid.IntRange(0, 2).Draw(t, "ownrow-pre"); a < pre; a++ {
					b.Steps = append(b.Steps, StepB{K: "rowerr", Ref: -1, Mode: rapid.IntRange(0, 3).Draw(t, "mode"), Cnt: rapid.IntRange(1, 3).Draw(t, "cnt")})
				}
				if rapid.Bool().Draw(t, "ownrow-fill") {
					b.Steps = append(b.Steps, StepB{K: "op", Op: &gen.Op{K: "rowadd", Ref: -1, Items: []gen.Item{item.Draw(t, "item")}}})
				}
				b.Steps = append(b.Steps, StepB{K: "op", Op: &gen.Op{K: "addrow", Ref: -1}})
				for a, post := 0, rapid.IntRange(1, 2).Draw(t, "ownrow-post"); a < post; a++ {
					b.Steps = append(b.Steps, StepB{K: "rowerr", Ref: -1, Mode: rapid.SampledFrom([]int{0, 0, 2, 2, 1, 3}).Draw(t, "mode"), Cnt: rapid.IntRange(1, 3).Draw(t, "cnt")})
				}
				continue
			case "op":
				op := gen.Op{K: rapid.SampledFrom([]string{"hdr", "rowitems", "rowitems", "sep", "appendnew", "newrow", "newrowsized", "newrowzero", "rowadd", "rowadd", "rowadd", "addrow", "addrow", "zerorow"}).Draw(t, "kind")}
				switch op.K {
				case "hdr", "rowitems":
					k := rapid.IntRange(0, 3).Draw(t, "cells")
					if gen.Rarely(t, "wide", 12) {
						k = rapid.IntRange(9, 13).Draw(t, "widecells") // past the ten-entry capacity of the column list in one step
					}
					for j := 0; j < k; j++ {
						op.Items = append(op.Items, item.Draw(t, "item"))
					}
				case "rowadd":
					op.Ref = rapid.IntRange(0, 7).Draw(t, "ref")
					k := rapid.IntRange(1, 2).Draw(t, "cells")
					for j := 0; j < k; j++ {
						op.Items = append(op.Items, item.Draw(t, "item"))
					}
				case "addrow":
					op.Ref = rapid.IntRange(0, 3).Draw(t, "ref")
				}
				st.Op = &op
			case "update":
				st.Ref = rapid.IntRange(0, 7).Draw(t, "ref")
				st.Col = rapid.IntRange(0, 4).Draw(t, "col")
			case "rowerr":
				st.Ref = rapid.IntRange(0, 7).Draw(t, "ref")
				if rapid.IntRange(0, 2).Draw(t, "shared?") == 0 {
					st.Shared = rapid.IntRange(1, 3).Draw(t, "shared")
				}
				if rapid.IntRange(0, 2).Draw(t, "listmode?") == 0 {
					st.Mode = rapid.IntRange(1, 3).Draw(t, "mode")
					st.Cnt = rapid.IntRange(1, 3).Draw(t, "cnt")
				}
			case "reg":
				st.Owner = rapid.SampledFrom([]string{"table", "column", "row", "cell"}).Draw(t, "owner")
				st.Ref = rapid.IntRange(0, 7).Draw(t, "ref")
				st.Col = rapid.SampledFrom([]int{0, 1, 2, 3, 4, -1, -1}).Draw(t, "col") // -1: the highest column of the moment
				st.When = rapid.IntRange(0, 3).Draw(t, "when")
				st.Target = rapid.IntRange(0, 2).Draw(t, "target")
				if rapid.IntRange(0, 2).Draw(t, "many") == 0 {
					st.N = rapid.IntRange(2, 4).Draw(t, "n")
				}
				if rapid.IntRange(0, 3).Draw(t, "shared?") == 0 {
					st.Shared = rapid.IntRange(1, 3).Draw(t, "shared")
				}
				if gen.Rarely(t, "nest", 6) {
					st.Owner, st.When, st.Target, st.Nest = "table", 0, rapid.IntRange(1, 2).Draw(t, "nest-target"), true
				}
			case "render":
				st.Via = rapid.SampledFrom([]string{"invoke", "csv", "texttable"}).Draw(t, "via")
			}
			b.Steps = append(b.Steps, st)
		}
		return Case{B: b}
	})
}

func TestPropA(t *testing.T) { prop.Rapid(t, genA()) }
func TestPropB(t *testing.T) { prop.Rapid(t, genB()) }

// TestEnumA: every sequence of up to VERIF_C11_ENUM_LEN container operations over a small alphabet, on each
// kind of container (constructed, zero value, nil).
func TestEnumA(t *testing.T) {
	maxLen := h.EnvInt("VERIF_C11_ENUM_LEN", 5)
	al := []OpA{
		{K: "adderr", Errs: []int{1}}, {K: "adderr", Errs: []int{0}},
		{K: "addlist", NilList: true}, {K: "addlist", Errs: []int{}}, {K: "addlist", Errs: []int{0, 0}},
		{K: "addlist", Errs: []int{0, 2, 3, 4}}, {K: "addlist", Errs: []int{5, 6}}, {K: "addlist", Errs: []int{7, 0}},
		{K: "merge"}, {K: "merge", On: 1}, {K: "reuse"}, {K: "adderr", Errs: []int{8}, On: 1},
	}
	var n int64
	for _, ctor := range []string{"new", "zero", "nil"} {
		var rec func(ops []OpA)
		rec = func(ops []OpA) {
			if len(ops) > 0 {
				n++
				c := Case{A: &CaseA{Ctor: ctor, Ops: append([]OpA{}, ops...)}}
				ev.R().EvalEnum(nil, true)
				if v := ev.Guard(func() *ev.Violation { return CheckCase(c) }); v != nil {
					ev.R().Fail(ID, c, v)
					t.Fatalf("VIOLATION %s", ID)
				}
			}
			if len(ops) == maxLen {
				return
			}
			for _, op := range al {
				rec(append(ops, op))
			}
		}
		rec(nil)
	}
	ev.R().Sub(ev.SubRun{Name: "container-histories", Bound: "every sequence of 1..N operations (N = VERIF_C11_ENUM_LEN) over a 12-operation alphabet x {constructed, zero-value, nil} container", Cases: n, Exhaustive: true})
}
