// Package c11: errors accumulate in the table: none lost, none duplicated, none nil.
package c11

import (
	"errors"
	"fmt"

	"go.pennock.tech/tabular"
	"go.pennock.tech/tabular/csv"
	"go.pennock.tech/tabular/texttable"

	"verif/harness/internal/ev"
	"verif/harness/internal/gen"
)

const ID = "C11"

// ---------------------------------------------------------------- part A: container algebra

// OpA is one container operation.  Errs holds error ids; 0 stands for a nil error.
type OpA struct {
	K       string `json:"k"` // adderr | addlist | errors | merge (other.AddErrorList(this.Errors())) | reuse (caller overwrites the list it passed last)
	Errs    []int  `json:"errs,omitempty"`
	NilList bool   `json:"nil_list,omitempty"` // addlist(nil)
	On      int    `json:"on,omitempty"`       // which of the two containers (0 = the one built by Ctor, 1 = a second NewErrorContainer)
}

type CaseA struct {
	Ctor string `json:"ctor"` // new | zero | nil
	Ops  []OpA  `json:"ops"`
}

type idErr struct {
	id int
}

func (e *idErr) Error() string { return fmt.Sprintf("E%d", e.id) }

// multiErr is ONE error that offers Unwrap() []error (like errors.Join): the container must keep it whole.
type multiErr struct {
	id      int
	members []error
}

func (e *multiErr) Error() string   { return fmt.Sprintf("M%d(%d members)", e.id, len(e.members)) }
func (e *multiErr) Unwrap() []error { return e.members }

func checkA(c CaseA) *ev.Violation {
	var ecs [2]*tabular.ErrorContainer
	switch c.Ctor {
	case "new":
		ecs[0] = tabular.NewErrorContainer()
	case "zero":
		ecs[0] = &tabular.ErrorContainer{}
	case "nil":
		ecs[0] = nil
	}
	ecs[1] = tabular.NewErrorContainer()
	if c.Ctor == "zero" {
		ecs[1] = &tabular.ErrorContainer{}
	}
	var models [2][]error
	pool := map[int]error{}
	get := func(id int) error {
		if id == 0 {
			return nil
		}
		if pool[id] == nil {
			switch id % 7 {
			case 3:
				pool[id] = &multiErr{id: id, members: []error{&idErr{-id}, &idErr{-id - 1000}}}
			case 5:
				pool[id] = &multiErr{id: id} // no members at all
			default:
				pool[id] = &idErr{id}
			}
		}
		return pool[id]
	}
	var lastList []error // the list the caller passed most recently (it still owns it)
	observe := func(step int, k string) *ev.Violation {
		for which, ec := range ecs {
			model := models[which]
			got := ec.Errors()
			if len(model) == 0 || ec == nil {
				if got != nil {
					return ev.V("step %d (%s): container %d: Errors() is %v (len %d) but the container should hold nothing: want nil", step, k, which, got, len(got))
				}
				continue
			}
			if len(got) != len(model) {
				return ev.V("step %d (%s): container %d: Errors() has %d entries %v, want %d %v", step, k, which, len(got), got, len(model), model)
			}
			for i := range model {
				if got[i] == nil {
					return ev.V("step %d (%s): container %d: Errors()[%d] is nil", step, k, which, i)
				}
				if got[i] != model[i] {
					return ev.V("step %d (%s): container %d: Errors()[%d] is %v, want %v (order of occurrence; %v vs %v)", step, k, which, i, got[i], model[i], got, model)
				}
			}
		}
		return nil
	}
	if v := observe(0, "fresh"); v != nil {
		return v
	}
	for i, op := range c.Ops {
		on := op.On & 1
		ec := ecs[on]
		switch op.K {
		case "adderr":
			id := 0
			if len(op.Errs) > 0 {
				id = op.Errs[0]
			}
			e := get(id)
			ec.AddError(e)
			if e != nil && ec != nil {
				models[on] = append(models[on], e)
			}
		case "addlist":
			var list []error
			if !op.NilList {
				list = make([]error, 0, len(op.Errs)+2)
				for _, id := range op.Errs {
					list = append(list, get(id))
				}
			}
			ec.AddErrorList(list)
			lastList = list
			for _, e := range list {
				if e != nil && ec != nil {
					models[on] = append(models[on], e)
				}
			}
		case "merge":
			// collect this container's errors into the other one
			other := 1 - on
			if ecs[other] == nil {
				break
			}
			ecs[other].AddErrorList(ec.Errors())
			if ec != nil {
				models[other] = append(models[other], models[on]...)
			}
		case "reuse":
			// the caller recycles the slice it handed over: overwrite and extend it
			for k := range lastList {
				lastList[k] = nil
			}
			if cap(lastList) > len(lastList) {
				lastList = append(lastList, &idErr{-1})
			}
		case "errors":
		}
		if v := observe(i+1, op.K); v != nil {
			return v
		}
	}
	return nil
}

// ---------------------------------------------------------------- part B: table histories

// StepB is one step of a table history.
type StepB struct {
	K      string  `json:"k"`                // op | rowerr | reg | render
	Op     *gen.Op `json:"op,omitempty"`     // for K == op
	Ref    int     `json:"ref,omitempty"`    // row reference (rowerr; reg on row/cell)
	Owner  string  `json:"owner,omitempty"`  // table | column | row | cell
	Col    int     `json:"col,omitempty"`    // column number (owner column), cell column (owner cell)
	When   int     `json:"when,omitempty"`   // 0 add, 1 pre-cell, 2 render, 3 post-cell
	Target int     `json:"target,omitempty"` // 0 itself, 1 cell, 2 row
	Via    string  `json:"via,omitempty"`    // render: invoke | csv | texttable
	Shared int     `json:"shared,omitempty"` // rowerr, reg: > 0 = the error value is the sentinel of that number (the same value every time) instead of a fresh one
	N      int     `json:"n,omitempty"`      // reg: the registration is made N times (several failing callbacks in one slot: one round, several errors)
	Mode   int     `json:"mode,omitempty"`   // rowerr: 0 AddError(e); 1 AddError(nil); 2 AddErrorList of Cnt errors with nil entries in between; 3 AddErrorList(nil or empty)
	Cnt    int     `json:"cnt,omitempty"`    // rowerr mode 2: number of non-nil errors in the list (1..3)
	Nest   bool    `json:"nest,omitempty"`   // reg (owner table, add time, target row or cell): the callback also adds one row to the same table (at most twice, never from inside itself) before it reports
}

type CaseB struct {
	Creator string  `json:"creator,omitempty"`
	Steps   []StepB `json:"steps"`
}

func mk[T any](xs ...T) []T { return xs }

var whens = mk(tabular.CB_AT_ADD, tabular.CB_AT_RENDER_PRECELL, tabular.CB_AT_RENDER, tabular.CB_AT_RENDER_POSTCELL)
var targets = mk(tabular.CB_ON_ITSELF, tabular.CB_ON_CELL, tabular.CB_ON_ROW)

type hErr struct {
	src   string // source: "reg<N>", "row<N>"
	seq   int
	multi bool // offers Unwrap() []error; still one error
}

func (e *hErr) Error() string { return fmt.Sprintf("%s#%d", e.src, e.seq) }

// Unwrap makes some harness errors look like errors.Join results; they are still single entries of the list.
func (e *hErr) Unwrap() []error {
	if !e.multi {
		return nil
	}
	return []error{fmt.Errorf("member-a-of-%s#%d", e.src, e.seq), fmt.Errorf("member-b-of-%s#%d", e.src, e.seq)}
}

type raised struct {
	e    error
	home *gen.MRow // nil = the table
}

// Sentinel error values an application uses again and again: every occurrence is an error raised, so every occurrence
// is reported.  One is an ordinary value, one a typed nil pointer (an error all the same: err != nil), one of a
// type that cannot be compared with == (a slice used by value).
type nilSafeErr struct{}

func (*nilSafeErr) Error() string { return "sentinel (typed nil pointer)" }

type errSlice []error

func (l errSlice) Error() string { return "sentinel (slice of errors)" }

var sentinels = []error{nil, errors.New("sentinel (plain)"), (*nilSafeErr)(nil), errSlice{errors.New("a"), errors.New("b")}}

// ekey identifies a harness error value ("" for anything else, i.e. the library's own errors).
func ekey(e error) string {
	switch x := e.(type) {
	case *hErr:
		return fmt.Sprintf("h%p", x)
	case *nilSafeErr:
		return "S2"
	case errSlice:
		return "S3"
	}
	if e == sentinels[1] {
		return "S1"
	}
	return ""
}

type world struct {
	seq    int
	home   *gen.MRow
	raised []raised
}

type failCB struct {
	reg    int
	n      int
	w      *world
	shared int // > 0: it reports sentinels[shared] every time instead of a fresh error
}

func (f *failCB) UpdateProperties(po tabular.PropertyOwner) error {
	f.n++
	if f.reg%2 == 0 && f.n%2 == 0 {
		return nil // even registrations fail on every other invocation only
	}
	f.w.seq++
	var e error = &hErr{src: fmt.Sprintf("reg%d", f.reg), seq: f.w.seq, multi: f.w.seq%5 == 0}
	if f.shared > 0 {
		e = sentinels[f.shared%len(sentinels)]
		if e == nil {
			e = sentinels[1]
		}
	}
	f.w.raised = append(f.w.raised, raised{e, f.w.home})
	return e
}

// nestCB is a table-owned add-time callback that, besides failing like failCB, adds one more row to the same table
// while the outer row is being attached (a totals row after a group row, say).  Whatever the other callbacks raise for
// the inner row is raised on the table (the inner row belongs to it at once); the outer row's errors stay due.
type nestCB struct {
	failCB
	t     tabular.Table
	depth int
	fired int
}

func (f *nestCB) UpdateProperties(po tabular.PropertyOwner) error {
	if f.depth == 0 && f.fired < 2 {
		f.depth++
		f.fired++
		home := f.w.home
		f.w.home = nil
		f.t.AddRowItems("nested", f.fired)
		f.w.home = home
		f.depth--
	}
	return f.failCB.UpdateProperties(po)
}

// Errors the harness did not create are the library's own (on the unchanged tree: the misuse error of adding a
// cell to a non-cell row).  They are identified by NOT being harness errors, never by their wording: a reworded
// message or a sentinel value must not raise an alarm.

func checkB(c CaseB) *ev.Violation {
	t := gen.NewTable(c.Creator)
	m := &gen.Model{}
	w := &world{}
	misuse := 0
	pendingMisuse := map[*gen.MRow]int{}
	nreg := 0
	observe := func(step int, k string) *ev.Violation {
		// pending rows report exactly what was raised on them
		for _, r := range m.All {
			if r.Attached {
				continue
			}
			var want []error
			for _, x := range w.raised {
				if x.home == r {
					want = append(want, x.e)
				}
			}
			all := r.Real.Errors()
			var got []error
			own := 0
			for _, e := range all {
				if e != nil && ekey(e) == "" {
					own++ // the library's own (a cell refused by a pending zero-value row)
					continue
				}
				got = append(got, e)
			}
			if own < pendingMisuse[r] {
				return ev.V("step %d (%s): %d cells were refused by a pending zero-value row but it reports only %d errors of the library's own: %v", step, k, pendingMisuse[r], own, all)
			}
			if len(want) == 0 {
				if got != nil || (all != nil && len(all) == 0) {
					return ev.V("step %d (%s): a pending row reports %v, nothing was raised on it", step, k, got)
				}
				continue
			}
			if len(got) != len(want) {
				return ev.V("step %d (%s): a pending row reports %v, raised on it so far: %v", step, k, got, want)
			}
			for i := range want {
				if ekey(got[i]) != ekey(want[i]) {
					return ev.V("step %d (%s): a pending row reports %v, raised on it so far (in order): %v", step, k, got, want)
				}
			}
		}
		// the table reports, exactly once, everything raised on it or on rows that have joined it
		want := map[string]int{}
		nwant := 0
		for _, x := range w.raised {
			if x.home == nil || x.home.Attached {
				want[ekey(x.e)]++
				nwant++
			}
		}
		got := t.Errors()
		if nwant == 0 && misuse == 0 {
			for _, e := range got {
				if e == nil || ekey(e) != "" {
					return ev.V("step %d (%s): table reports %v but no error has been raised", step, k, got)
				}
			}
			if got != nil && len(got) == 0 {
				return ev.V("step %d (%s): the error list is empty but not nil", step, k)
			}
			return nil
		}
		seen := map[string]int{}
		last := map[string]int{}
		gotMisuse := 0
		for i, e := range got {
			if e == nil {
				return ev.V("step %d (%s): table error list has a nil entry at %d: %v", step, k, i, got)
			}
			key := ekey(e)
			if key == "" {
				gotMisuse++
				continue
			}
			seen[key]++
			if seen[key] > want[key] {
				if want[key] == 0 {
					return ev.V("step %d (%s): table reports %v, which was not raised on it or belongs to a row that has not joined the table", step, k, e)
				}
				return ev.V("step %d (%s): error %v is reported %d times by the table but was raised %d times: %v", step, k, e, seen[key], want[key], got)
			}
			if he, ok := e.(*hErr); ok {
				if he.seq < last[he.src] {
					return ev.V("step %d (%s): errors of source %s are out of order in the table's list: %v", step, k, he.src, got)
				}
				last[he.src] = he.seq
			}
		}
		for key, n := range want {
			if seen[key] < n {
				return ev.V("step %d (%s): an error (%s) was raised %d times but the table reports it %d times (table reports %v)", step, k, key, n, seen[key], got)
			}
		}
		if gotMisuse < misuse {
			return ev.V("step %d (%s): %d cells were added to non-cell rows of the table but it reports only %d errors of its own: %v", step, k, misuse, gotMisuse, got)
		}
		if gotMisuse > misuse {
			ev.R().Count("library-errors-beyond-the-misuse-errors", 1)
		}
		if len(got) == 0 {
			return ev.V("step %d (%s): table error list is empty-but-non-nil or nil although errors were raised", step, k)
		}
		return nil
	}
	rowOf := func(ref int) *gen.MRow {
		if len(m.All) == 0 {
			return nil
		}
		n := len(m.All)
		return m.All[((ref%n)+n)%n]
	}
	for i, st := range c.Steps {
		w.home = nil
		switch st.K {
		case "op":
			op := *st.Op
			if op.K == "rowadd" {
				if r := rowOf(op.Ref); r != nil {
					if !r.Attached {
						w.home = r
					}
					if r.Attached && (r.Sep || r.NilCells) {
						misuse += len(op.Items)
					}
					if !r.Attached && r.NilCells {
						pendingMisuse[r] += len(op.Items) // refused on a pending zero-value row: reported once the row has joined
					}
				}
			}
			m.Step(t, op)
			for r, n := range pendingMisuse {
				if r.Attached {
					misuse += n
					delete(pendingMisuse, r)
				}
			}
		case "rowerr":
			r := rowOf(st.Ref)
			if r == nil {
				break
			}
			w.seq++
			var e error = &hErr{src: fmt.Sprintf("row%p", r), seq: w.seq, multi: w.seq%3 == 0}
			if st.Shared > 0 {
				e = sentinels[1+(st.Shared-1)%3]
			}
			home := r
			if r.Attached {
				home = nil
			}
			switch st.Mode % 4 {
			case 1:
				r.Real.AddError(nil) // adds nothing, raises nothing
			case 2:
				// a list with nil entries around and between the errors: only the errors are added, in order
				list := []error{nil}
				w.raised = append(w.raised, raised{e, home})
				list = append(list, e)
				for x := 1; x < st.Cnt && x < 3; x++ {
					w.seq++
					e2 := &hErr{src: fmt.Sprintf("row%p", r), seq: w.seq}
					w.raised = append(w.raised, raised{e2, home})
					list = append(list, nil, e2)
				}
				if st.Cnt%2 == 0 {
					list = append(list, nil)
				}
				r.Real.AddErrorList(list)
			case 3:
				if st.Cnt%2 == 0 {
					r.Real.AddErrorList(nil)
				} else {
					r.Real.AddErrorList([]error{})
				}
			default:
				w.raised = append(w.raised, raised{e, home})
				r.Real.AddError(e)
			}
		case "reg":
			var owner tabular.PropertyOwner
			switch st.Owner {
			case "table":
				owner = t
			case "column":
				n := t.NColumns()
				col := ((st.Col % (n + 1)) + n + 1) % (n + 1)
				owner = t.Column(col)
			case "row":
				if r := rowOf(st.Ref); r != nil {
					owner = r.Real
				}
			case "cell":
				if r := rowOf(st.Ref); r != nil && len(r.Cells) > 0 {
					cells := r.Real.Cells()
					if len(cells) > 0 {
						owner = &cells[((st.Col%len(cells))+len(cells))%len(cells)]
					}
				}
			}
			if owner == nil {
				break
			}
			for k := 0; k < 1 || k < st.N; k++ {
				nreg++
				var cb tabular.PropertyCallback = &failCB{reg: nreg, w: w, shared: st.Shared}
				if st.Nest && st.Owner == "table" && st.When%4 == 0 && st.Target%3 != 0 {
					cb = &nestCB{failCB: failCB{reg: nreg, w: w, shared: st.Shared}, t: t}
				}
				t.RegisterPropertyCallback(owner, whens[st.When%4], targets[st.Target%3], cb)
			}
		case "update":
			// refreshing a cell's text from its item is no occasion for any callback: nothing is raised
			if r := rowOf(st.Ref); r != nil && len(r.Cells) > 0 {
				if cells := r.Real.Cells(); len(cells) > 0 {
					(&cells[((st.Col%len(cells))+len(cells))%len(cells)]).Update()
				}
			}
		case "render":
			switch st.Via {
			case "csv":
				csv.Render(t)
			case "texttable":
				texttable.Render(t)
			default:
				t.InvokeRenderCallbacks()
			}
		}
		if v := observe(i+1, st.K); v != nil {
			return v
		}
	}
	return nil
}

// ---------------------------------------------------------------- envelope

type Case struct {
	A *CaseA `json:"a,omitempty"`
	B *CaseB `json:"b,omitempty"`
}

func CheckCase(c Case) *ev.Violation {
	if c.A != nil {
		return checkA(*c.A)
	}
	if c.B != nil {
		return checkB(*c.B)
	}
	return nil
}

func Classify(c Case) (bool, interface{}, []string) {
	var cl []string
	nt := false
	seen := map[string]bool{}
	add := func(s string) {
		if !seen[s] {
			seen[s] = true
			cl = append(cl, s)
		}
	}
	if c.A != nil {
		add("A-" + c.A.Ctor)
		for _, op := range c.A.Ops {
			if op.K == "addlist" {
				hasNil, nonNil := false, 0
				for _, id := range op.Errs {
					if id == 0 {
						hasNil = true
					} else {
						nonNil++
					}
				}
				if hasNil {
					add("A-list-with-nil")
					if c.A.Ctor != "new" {
						nt = true
					}
					if nonNil >= 2 {
						add("A-list-nil-then-several")
					}
				}
				if op.NilList {
					add("A-nil-list")
				}
			}
		}
		return nt, nil, cl
	}
	if c.B != nil {
		add("B")
		// replay cheaply to learn the facts
		t := gen.NewTable("")
		m := &gen.Model{}
		for _, st := range c.B.Steps {
			switch st.K {
			case "op":
				if st.Op.K == "rowadd" && len(m.All) > 0 {
					n := len(m.All)
					r := m.All[((st.Op.Ref%n)+n)%n]
					if r.Sep || r.NilCells {
						add("B-add-to-separator")
						nt = true
					}
				}
				m.Step(t, *st.Op)
			case "rowerr":
				if len(m.All) > 0 {
					n := len(m.All)
					r := m.All[((st.Ref%n)+n)%n]
					if !r.Attached {
						add("B-error-on-pending-row")
						nt = true
					} else {
						add("B-error-on-attached-row")
					}
					if st.Mode%4 != 0 {
						add(fmt.Sprintf("B-rowerr-mode%d", st.Mode%4))
					}
				}
			case "reg":
				add(fmt.Sprintf("B-reg-%s-w%d-t%d", st.Owner, st.When%4, st.Target%3))
				if st.Nest && st.Owner == "table" && st.When%4 == 0 && st.Target%3 != 0 {
					add("B-callback-adds-a-row")
				}
				nt = true
			case "render":
				add("B-render-" + st.Via)
			}
		}
	}
	return nt, nil, cl
}
