// Package c09: every renderer is total: it never panics, and failure is an error with no text.
package c09

import (
	"bytes"
	"io"
	"strings"

	"go.pennock.tech/tabular"
	"go.pennock.tech/tabular/auto"
	"go.pennock.tech/tabular/csv"
	"go.pennock.tech/tabular/html"
	"go.pennock.tech/tabular/json"
	"go.pennock.tech/tabular/markdown"
	"go.pennock.tech/tabular/texttable"
	"go.pennock.tech/tabular/texttable/decoration"

	"verif/harness/internal/ev"
	"verif/harness/internal/gen"
)

const ID = "C09"

// Styles are the render configurations: the four non-text renderers, the six
// registered decorations and an unknown decoration.
var Styles = []string{"csv", "html", "json", "markdown", "ascii-simple", "none", "utf8-light", "utf8-light-curved", "utf8-heavy", "utf8-double", "no-such-decoration",
	"c09-bars-only", "c09-rules-only", "c09-corners-only", "c09-wide-glyphs", "c09-inner-only", "c09-header-bar-only",
	// style strings with further sections, as auto takes them (whatever the sections say, never a panic)
	"html.class", "html.id", "HTML.x.id.class=y", "html.class=", "csv.", "json.x", "markdown.a=b", "texttable.none.x", "texttable.", "texttable..", ".", "..", "none.caption=x"}

// decorations an application registered as they are, key points only (nothing says a decoration must be complete):
// vertical bars and nothing horizontal, horizontal rules and nothing vertical, corners only, the inner divider only, the header bar only, and a populated one
// whose glyphs are two cells wide
func init() {
	decoration.RegisterDecorationName("c09-bars-only", decoration.Decoration{VHeader: "|", VBodyBorder: "|", VBodyInner: "|"})
	decoration.RegisterDecorationName("c09-rules-only", decoration.Decoration{HOuter: "-", HRule: "-"})
	decoration.RegisterDecorationName("c09-corners-only", decoration.Decoration{TopLeft: "/", TopRight: "\\", BottomLeft: "\\", BottomRight: "/"})
	decoration.RegisterDecorationName("c09-inner-only", decoration.Decoration{VBodyInner: ":"})
	decoration.RegisterDecorationName("c09-header-bar-only", decoration.Decoration{VHeader: "!"})
	wide := decoration.Decoration{Horizontal: "\u2550\u2550", Vertical: "\u6f22"}
	wide.Populate()
	decoration.RegisterDecorationName("c09-wide-glyphs", wide)
}

type Case struct {
	Script gen.Script `json:"script"`
	Style  string     `json:"style"`
	Auto   bool       `json:"auto,omitempty"` // through auto.Render(t, style) instead of the wrapper type's Render()
	// Seq, if set, replaces Style/Auto: renders interleaved with the build history, all on the SAME table.
	Seq []RenderAt `json:"seq,omitempty"`
}

// RenderAt: after At operations of the history (0 = before the first), render in Style; Reuse = through the
// wrapper of that style created at its first use (else a fresh wrapper / auto.Render).
type RenderAt struct {
	At    int    `json:"at"`
	Style string `json:"style"`
	Auto  bool   `json:"auto,omitempty"`
	Reuse bool   `json:"reuse,omitempty"`
}

// oneRender checks one render of t for totality.
func oneRender(t tabular.Table, w renderer, style string, viaAuto bool) *ev.Violation {
	var out string
	var err, err2 error
	var b bytes.Buffer
	if viaAuto {
		out, err = auto.Render(t, style)
		err2 = auto.RenderTo(t, &b, style)
	} else {
		out, err = w.Render()
		err2 = w.RenderTo(&b)
	}
	if err != nil {
		if out != "" {
			return ev.V("%s: Render returned error %q together with text %q", style, err, out)
		}
		if err2 == nil {
			return ev.V("%s: Render failed (%v) but RenderTo on the same table succeeded", style, err)
		}
		return nil
	}
	if err2 != nil {
		return ev.V("%s: Render succeeded but RenderTo failed: %v", style, err2)
	}
	if b.String() != out {
		return ev.V("%s: Render returned %q, RenderTo wrote %q", style, out, b.String())
	}
	if out != "" && !strings.HasSuffix(out, "\n") {
		return ev.V("%s: output is not newline-terminated (incomplete?): %q", style, out)
	}
	return nil
}

func checkSeq(c Case) *ev.Violation {
	t := gen.NewTable(c.Script.Creator)
	m := &gen.Model{}
	long := map[string]renderer{}
	renderAt := func(k int) *ev.Violation {
		for i, r := range c.Seq {
			at := r.At
			if at > len(c.Script.Ops) {
				at = len(c.Script.Ops)
			}
			if at != k {
				continue
			}
			var w renderer
			if !r.Auto {
				if r.Reuse {
					if long[r.Style] == nil {
						long[r.Style] = wrap(t, r.Style)
					}
					w = long[r.Style]
				} else {
					w = wrap(t, r.Style)
				}
			}
			if v := oneRender(t, w, r.Style, r.Auto); v != nil {
				return ev.V("render %d (after %d of %d operations, reused wrapper %v): %s", i+1, k, len(c.Script.Ops), r.Reuse, v.Msg)
			}
		}
		return nil
	}
	if v := renderAt(0); v != nil {
		return v
	}
	for i, op := range c.Script.Ops {
		m.Step(t, op)
		if v := renderAt(i + 1); v != nil {
			return v
		}
	}
	return nil
}

type renderer interface {
	Render() (string, error)
	RenderTo(io.Writer) error
}

func wrap(t tabular.Table, style string) renderer {
	if strings.Contains(style, ".") {
		return auto.Wrap(t, style)
	}
	switch style {
	case "csv":
		return csv.Wrap(t)
	case "html":
		return html.Wrap(t)
	case "json":
		return json.Wrap(t)
	case "markdown":
		return markdown.Wrap(t)
	}
	tt := texttable.Wrap(t)
	tt.SetDecorationNamed(style)
	return tt
}

func CheckCase(c Case) *ev.Violation {
	if len(c.Seq) > 0 {
		return checkSeq(c)
	}
	t, _ := gen.Build(c.Script)
	var out string
	var err error
	var b bytes.Buffer
	var err2 error
	if c.Auto {
		out, err = auto.Render(t, c.Style)
		err2 = auto.RenderTo(t, &b, c.Style)
	} else {
		w := wrap(t, c.Style)
		out, err = w.Render()
		err2 = w.RenderTo(&b)
	}
	if err != nil {
		if out != "" {
			return ev.V("%s: Render returned error %q together with text %q", c.Style, err, out)
		}
		if err2 == nil {
			return ev.V("%s: Render failed (%v) but RenderTo on the same table succeeded", c.Style, err)
		}
		return nil
	}
	if err2 != nil {
		return ev.V("%s: Render succeeded but RenderTo failed: %v", c.Style, err2)
	}
	if b.String() != out {
		return ev.V("%s: Render returned %q, RenderTo wrote %q", c.Style, out, b.String())
	}
	if out != "" && !strings.HasSuffix(out, "\n") {
		return ev.V("%s: output is not newline-terminated (incomplete?): %q", c.Style, out)
	}
	return nil
}

// facts of a history for the non-trivial rule
func Facts(s gen.Script) (nt bool, classes []string) {
	_, m := gen.Build(s)
	seen := map[string]bool{}
	add := func(b bool, k string) {
		if b && !seen[k] {
			seen[k] = true
			classes = append(classes, k)
		}
	}
	add(m.ZeroCellRow, "zero-cell-row")
	add(m.ZeroCellHdr, "zero-cell-header")
	add(m.LateAdd, "late-add")
	add(m.SepAdd, "add-to-separator")
	n := len(m.Rows)
	add(n > 0 && m.Rows[0].Sep, "sep-first")
	add(n > 0 && m.Rows[n-1].Sep, "sep-last")
	add(n == 0, "no-rows")
	add(!m.HeaderSet, "no-header")
	add(m.NCols() == 0, "no-columns")
	add(m.Ragged, "ragged")
	dis := false
	each := func(cells []gen.MCell) {
		for _, x := range cells {
			lines := 0
			if x.Text != "" {
				lines = 1 + strings.Count(strings.TrimSuffix(x.Text, "\n"), "\n")
			}
			if h, ok := x.It.DeclaredHeight(); ok && h != lines {
				dis = true
				add(h < lines, "height-under-declared")
				add(h > lines, "height-over-declared")
			}
			if _, ok := x.It.DeclaredWidth(); ok {
				dis = true
				add(true, "width-declared")
				add(x.Text == "", "width-declared-empty-text")
			}
		}
	}
	each(m.Header)
	for _, r := range m.Rows {
		each(r.Cells)
	}
	nt = m.ZeroCellRow || m.ZeroCellHdr || m.LateAdd || (n > 0 && (m.Rows[0].Sep || m.Rows[n-1].Sep)) || dis
	return nt, classes
}

func Classify(c Case) (bool, interface{}, []string) {
	nt, cl := Facts(c.Script)
	if len(c.Seq) > 0 {
		cl = append(cl, "render-sequence")
		mid := false
		for _, r := range c.Seq {
			if r.At < len(c.Script.Ops) {
				mid = true
			}
		}
		if mid {
			cl = append(cl, "render-before-history-complete")
			nt = true
		}
		return nt, nil, cl
	}
	cl = append(cl, "style-"+c.Style)
	if c.Auto {
		cl = append(cl, "via-auto")
	}
	return nt, nil, cl
}
