package c09

import (
	"fmt"
	"os"
	"testing"

	"pgregory.net/rapid"

	"verif/harness/internal/ev"
	"verif/harness/internal/gen"
	"verif/harness/internal/h"
)

var prop = h.Prop[Case]{ID: ID, Check: CheckCase, Classify: Classify}

func TestMain(m *testing.M) { os.Exit(ev.Main(ID, m)) }

func TestReplay(t *testing.T) { prop.Replay(t, nil) }

// sizeItem draws items whose declared size disagrees with their text in every direction.
func sizeItem() *rapid.Generator[gen.Item] {
	return rapid.Custom(func(t *rapid.T) gen.Item {
		it := gen.Item{K: "if", P: rapid.Bool().Draw(t, "ptr")}
		it.M = rapid.SampledFrom([]int{1, 2, 4, 5}).Draw(t, "text") | rapid.SampledFrom([]int{gen.MHeight, gen.MWidth, gen.MHeight | gen.MWidth}).Draw(t, "size")
		txt := gen.Str(gen.StringOf([]string{"a", "bc", "\n", "\n\n", "漢", "", "x\ny\nz", "\x1b[", "\x1b[1;31mFULL\x1b[", "\x1b[0m", "\x1b", "wider than declared"}, 0, 3).Draw(t, "s"))
		it.S, it.G, it.E = txt, txt, txt
		it.H = rapid.IntRange(-2, 6).Draw(t, "h")
		it.W = rapid.IntRange(-2, 9).Draw(t, "w")
		return it
	})
}

func itemGen() *rapid.Generator[gen.Item] {
	anyItem := gen.AnyItem(gen.TokWidth, 2)
	sz := sizeItem()
	hot := gen.ExpandingString([]string{"\"", "<", "&", "|", "\\", "\n", "\x01", "\u2028", "'", "\U0001f469"})
	return rapid.Custom(func(t *rapid.T) gen.Item {
		if rapid.IntRange(0, 4).Draw(t, "size") == 0 {
			return sz.Draw(t, "sz")
		}
		if rapid.IntRange(0, 9).Draw(t, "expanding") == 0 {
			// every renderer escapes something: quotes, angle brackets, ampersands, pipes, backslashes, control characters
			return gen.S(hot.Draw(t, "hot"))
		}
		it := anyItem.Draw(t, "item")
		return it
	})
}

func caseGen() *rapid.Generator[Case] {
	sg := gen.ScriptGen(gen.ScriptOpts{
		AllowProps: true, AllowRowErr: true, Item: itemGen(),
		MinOps:    0,
		MaxOps:    40,
		MaxCells:  4,
		HeavyTail: 12,
		Creators:  []string{"core", "core", "csv", "html", "json", "markdown", "texttable", "auto:none", "auto:json"},
	})
	return rapid.Custom(func(t *rapid.T) Case {
		return Case{Script: sg.Draw(t, "script"), Style: rapid.SampledFrom(Styles).Draw(t, "style"), Auto: rapid.Bool().Draw(t, "auto")}
	})
}

func TestProp(t *testing.T) { prop.Rapid(t, caseGen()) }

// seqGen: histories with renders interleaved, all on the same table, wrappers reused or fresh.
func seqGen() *rapid.Generator[Case] {
	sg := gen.ScriptGen(gen.ScriptOpts{
		AllowProps: true, AllowRowErr: true, Item: itemGen(),
		MinOps:      1,
		MaxOps:      16,
		MaxCells:    4,
		HeavyTail:   12,
		MultiHdr:    true,
		AllowMutate: true,
		AllowCopy:   true,
		Creators:    []string{"core", "core", "csv", "texttable", "markdown", "auto:none"},
	})
	return rapid.Custom(func(t *rapid.T) Case {
		c := Case{Script: sg.Draw(t, "script")}
		palette := rapid.SliceOfN(rapid.SampledFrom(Styles), 1, 3).Draw(t, "palette")
		n := rapid.IntRange(2, 8).Draw(t, "renders")
		for i := 0; i < n; i++ {
			c.Seq = append(c.Seq, RenderAt{At: rapid.IntRange(0, len(c.Script.Ops)).Draw(t, "at"), Style: rapid.SampledFrom(palette).Draw(t, "style"),
				Auto: rapid.IntRange(0, 3).Draw(t, "auto") == 0, Reuse: rapid.Bool().Draw(t, "reuse")})
		}
		return c
	})
}

func TestPropSeq(t *testing.T) { prop.Rapid(t, seqGen()) }

// TestEnumSeq: every history of up to VERIF_C09_SEQ_LEN symbols, then every ordered triple of styles from a
// reduced set rendered one after the other on the same table through reused wrappers.
func TestEnumSeq(t *testing.T) {
	maxLen := h.EnvInt("VERIF_C09_SEQ_LEN", 2)
	al := Alphabet()
	styles := []string{"csv", "markdown", "utf8-heavy", "none", "json"}
	shard, shards := h.Shard()
	var evals int64
	idx := 0
	var rec func(prefix []gen.Op, depth int)
	rec = func(prefix []gen.Op, depth int) {
		idx++
		if idx%shards == shard {
			ops := make([]gen.Op, len(prefix))
			copy(ops, prefix)
			nt, classes := Facts(gen.Script{Ops: ops})
			for _, a := range styles {
				for _, b := range styles {
					for _, d := range styles {
						c := Case{Script: gen.Script{Ops: ops}, Seq: []RenderAt{{At: len(ops), Style: a, Reuse: true}, {At: len(ops), Style: b, Reuse: true}, {At: len(ops), Style: d, Reuse: true}}}
						evals++
						ev.R().EvalEnum(nil, nt || a != b || b != d, classes...) // non-trivial: the history is, or two different renderers meet on the table
						if v := ev.Guard(func() *ev.Violation { return CheckCase(c) }); v != nil {
							ev.R().Fail(ID, c, v)
							t.Fatalf("VIOLATION %s: %s", ID, firstLine(v.Msg))
						}
					}
				}
			}
		}
		if depth == maxLen {
			return
		}
		for _, sym := range al {
			rec(append(prefix, sym...), depth+1)
		}
	}
	rec(nil, 0)
	ev.R().Sub(ev.SubRun{Name: "render-triples-on-one-table", Bound: fmt.Sprintf("every history of 0..%d symbols x every ordered triple over %d styles, rendered one after the other on the same table through reused wrappers", maxLen, len(styles)), Cases: evals, Exhaustive: true})
}

// Alphabet of the exhaustive enumeration: each symbol is one or more operations.
func Alphabet() [][]gen.Op {
	s := gen.S
	under := gen.Item{K: "if", M: gen.MString | gen.MHeight, S: "a\nb\nc", H: 1}
	over := gen.Item{K: "if", M: gen.MString | gen.MHeight, S: "x", H: 3}
	wmis := gen.Item{K: "if", M: gen.MString | gen.MWidth, S: "abc", W: 1}
	wzero := gen.Item{K: "if", M: gen.MError | gen.MWidth, E: "", W: 0, P: true}
	return [][]gen.Op{
		{{K: "hdr"}},
		{{K: "hdr", Items: []gen.Item{s("h")}}},
		{{K: "hdr", Items: []gen.Item{s("h\n2"), s("H")}}},
		{{K: "rowitems"}},
		{{K: "rowitems", Items: []gen.Item{{K: "nil"}}}},
		{{K: "rowitems", Items: []gen.Item{s(""), s("wide漢")}}},
		{{K: "rowitems", Items: []gen.Item{s("a"), s("b\nc"), s("d")}}},
		{{K: "sep"}},
		{{K: "appendnew"}},
		{{K: "rowadd", Ref: -1, Items: []gen.Item{s("L")}}},
		{{K: "newrowsized"}, {K: "rowadd", Ref: -1, Items: []gen.Item{s("p"), s("q")}}, {K: "addrow", Ref: -1}},
		{{K: "rowitems", Items: []gen.Item{under}}},
		{{K: "rowitems", Items: []gen.Item{over, wmis, wzero}}},
		{{K: "zerorow"}},
		{{K: "rowitems", Items: []gen.Item{{K: "f64", FS: "nan"}}}}, // text-like ("NaN") but not JSON-encodable: fails after output has begun
	}
}

// TestEnum: every sequence of up to VERIF_C09_ENUM_LEN alphabet symbols, crossed with
// every style through both routes.  Shards split on the first symbol.
func TestEnum(t *testing.T) {
	maxLen := h.EnvInt("VERIF_C09_ENUM_LEN", 3)
	al := Alphabet()
	shard, shards := h.Shard()
	var hist, evals int64
	var rec func(prefix []gen.Op, depth int)
	rec = func(prefix []gen.Op, depth int) {
		hist++
		ops := make([]gen.Op, len(prefix))
		copy(ops, prefix)
		sc := gen.Script{Ops: ops}
		nt, classes := Facts(sc)
		for si, st := range Styles {
			for ai, viaAuto := range []bool{false, true} {
				c := Case{Script: sc, Style: st, Auto: viaAuto}
				evals++
				var sample interface{}
				if hist%997 == 0 && si == ai {
					sample = c
				}
				ev.R().EvalEnum(sample, nt, classes...)
				if v := ev.Guard(func() *ev.Violation { return CheckCase(c) }); v != nil {
					ev.R().Fail(ID, c, v)
					t.Fatalf("VIOLATION %s: %s", ID, firstLine(v.Msg))
				}
			}
		}
		if depth == maxLen {
			return
		}
		for i, sym := range al {
			if depth == 0 && i%shards != shard {
				continue
			}
			rec(append(prefix, sym...), depth+1)
		}
	}
	if shard == 0 {
		rec(nil, 0)
	} else {
		// the empty history belongs to shard 0 only
		for i, sym := range al {
			if i%shards == shard {
				rec(append([]gen.Op{}, sym...), 1)
			}
		}
	}
	ev.R().Sub(ev.SubRun{Name: "all-histories-x-all-styles", Bound: fmt.Sprintf("every sequence of 0..%d symbols over a %d-symbol alphabet x %d styles x {wrapper Render, auto.Render}", maxLen, len(al), len(Styles)), Cases: evals, Exhaustive: true})
}

func firstLine(s string) string {
	for i := 0; i < len(s); i++ {
		if s[i] == '\n' {
			return s[:i]
		}
	}
	return s
}
