package c01

import (
	"os"
	"testing"

	"pgregory.net/rapid"

	"verif/harness/internal/ev"
	"verif/harness/internal/gen"
	"verif/harness/internal/h"
)

var prop = h.Prop[Case]{ID: ID, Check: CheckCase, Classify: Classify}

func TestMain(m *testing.M) { os.Exit(ev.Main(ID, m)) }

func TestReplay(t *testing.T) { prop.Replay(t, nil) }

var tokens = append(append([]string{}, gen.TokWidth...), "\"", ",", "<", "&")

func caseGen() *rapid.Generator[Case] {
	return rapid.Custom(func(t *rapid.T) Case {
		c := Case{Item: gen.AnyItem(tokens, 3).Draw(t, "item")}
		nestedMutable := (c.Item.K == "cell" || c.Item.K == "pcell") && c.Item.In != nil && Mutable(*c.Item.In)
		if (Mutable(c.Item) || nestedMutable) && rapid.IntRange(0, 3).Draw(t, "mutate") > 0 {
			s := func(l string) gen.Str { return gen.Str(gen.StringOf(tokens, 0, 2).Draw(t, l)) }
			c.Mut = &Mut{S: s("ms"), G: s("mg"), E: s("me"), N: int64(rapid.IntRange(-5, 5).Draw(t, "mn"))}
		}
		return c
	})
}

func TestProp(t *testing.T) { prop.Rapid(t, caseGen()) }

// TestEnum enumerates the whole interface matrix: 32 method subsets x
// {value, pointer} x {empty, non-empty} for each of the three text methods x
// {no mutation, mutation flipping emptiness, mutation to a different text}.
func TestEnum(t *testing.T) {
	var n int64
	texts := []string{"", "x"}
	for mask := 0; mask < 32; mask++ {
		for _, ptr := range []bool{false, true} {
			for _, s := range texts {
				for _, g := range texts {
					for _, e := range texts {
						it := gen.Item{K: "if", M: mask, P: ptr, S: gen.Str(s), G: gen.Str(g), E: gen.Str(e), H: 2, W: 3}
						flip := func(x string) gen.Str {
							if x == "" {
								return "y"
							}
							return ""
						}
						muts := []*Mut{nil, {S: flip(s), G: flip(g), E: flip(e)}, {S: gen.Str(s + "z"), G: gen.Str(g + "z"), E: gen.Str(e + "z")}}
						for _, m := range muts {
							n++
							if v := prop.Eval(Case{Item: it, Mut: m}); v != nil {
								t.Fatalf("VIOLATION %s: %s", ID, v.Msg)
							}
						}
					}
				}
			}
		}
	}
	ev.R().Sub(ev.SubRun{Name: "interface-matrix", Bound: "32 masks x {value,pointer} x {empty,non-empty}^3 texts x 3 mutation classes", Cases: n, Exhaustive: true})
}

func FuzzC01(f *testing.F) {
	f.Add("text", "g", "e", uint8(7), uint8(1), uint8(2), "new")
	f.Add("", "", "", uint8(0x25), uint8(0), uint8(0), "")
	f.Add("a\nb", "\x00", "\xff", uint8(0x46), uint8(3), uint8(9), "​")
	f.Fuzz(func(t *testing.T, s, g, e string, mask, hh, w uint8, ms string) {
		var c Case
		switch mask >> 6 {
		case 0, 1:
			c.Item = gen.Item{K: "if", M: int(mask & 31), P: mask&32 != 0, S: gen.Str(s), G: gen.Str(g), E: gen.Str(e), H: int(hh % 6), W: int(w % 12)}
			c.Mut = &Mut{S: gen.Str(ms), G: gen.Str(g + ms), E: gen.Str(ms + e)}
			if mask>>6 == 1 {
				c.Mut = nil
			}
		case 2:
			c.Item = gen.S(s)
		case 3:
			in := gen.Item{K: "if", M: int(mask & 31), S: gen.Str(s), G: gen.Str(g), E: gen.Str(e)}
			c.Item = gen.Item{K: "cell", In: &in}
		}
		if v := prop.Eval(c); v != nil {
			t.Fatalf("VIOLATION %s", ID)
		}
	})
}
