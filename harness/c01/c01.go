// Package c01: a cell's text is the documented text form of the item stored in it.
package c01

import (
	"fmt"
	stdhtml "html"
	"strings"
	"unicode/utf8"

	"go.pennock.tech/tabular"
	"go.pennock.tech/tabular/auto"
	"go.pennock.tech/tabular/csv"
	"go.pennock.tech/tabular/html"
	"go.pennock.tech/tabular/length"
	"go.pennock.tech/tabular/properties"
	"go.pennock.tech/tabular/texttable"
	"go.pennock.tech/tabular/texttable/decoration"

	"verif/harness/internal/ev"
	"verif/harness/internal/gen"
	"verif/harness/internal/oracle"
)

const ID = "C01"

// Mut is the new state written into a mutable item after the cell was built.
type Mut struct {
	S gen.Str `json:"s,omitempty"`
	G gen.Str `json:"g,omitempty"`
	E gen.Str `json:"e,omitempty"`
	N int64   `json:"n,omitempty"`
}

type Case struct {
	Item gen.Item `json:"item"`
	Mut  *Mut     `json:"mut,omitempty"`
}

// Mutable reports whether the harness can change the item behind the cell's back.
func Mutable(it gen.Item) bool {
	switch it.K {
	case "if", "ifp", "psx", "ints":
		return true
	}
	return false
}

func applyMut(l *gen.Live, it gen.Item, m Mut) {
	switch it.K {
	case "if", "ifp":
		l.St.S, l.St.G, l.St.E = string(m.S), string(m.G), string(m.E)
	case "psx":
		l.PSX.A = int(m.N)
		l.PSX.B = string(m.S)
	case "ints":
		l.Ints[0] = int(m.N)
	}
}

// sizeFollowsText: a cell whose item does not override its size is as tall as its text has lines and as wide
// as its longest line, also after the item was mutated and the cell updated (the C18 relation, here across Update).
func sizeFollowsText(where string, c *tabular.Cell, want string, it gen.Item) *ev.Violation {
	if it.EffMask()&(gen.MHeight|gen.MWidth) != 0 || it.K == "cell" || it.K == "pcell" {
		return nil
	}
	lines := oracle.Lines(want)
	w := 0
	for _, l := range lines {
		if n := length.StringCells(l); n > w {
			w = n
		}
	}
	if c.Height() != len(lines) || c.TerminalCellWidth() != w || len(c.Lines()) != len(lines) {
		return ev.V("%s: text %q has %d lines, widest %d cells, but the cell reports Height()=%d TerminalCellWidth()=%d len(Lines())=%d", where, want, len(lines), w, c.Height(), c.TerminalCellWidth(), len(c.Lines()))
	}
	return nil
}

func observe(where string, c *tabular.Cell, want string, orig interface{}) *ev.Violation {
	if got := c.String(); got != want {
		return ev.V("%s: String()=%q, documented text form is %q", where, got, want)
	}
	if got := (*c).String(); got != want {
		return ev.V("%s: String() on a copy =%q, want %q", where, got, want)
	}
	if got := c.Empty(); got != (want == "") {
		return ev.V("%s: Empty()=%v but text is %q", where, got, want)
	}
	if !gen.SameItem(orig, c.Item()) {
		return ev.V("%s: Item() is %#v, not the original item %#v", where, c.Item(), orig)
	}
	return nil
}

// checkNestedStale: a cell holding a cell shows the INNER CELL's text, i.e. the snapshot the inner cell took, not a
// fresh reading of the innermost item: the inner cell is built, its item is mutated (the inner cell is not updated),
// and only then wrapped, and the outer cell is updated.
func checkNestedStale(cs Case) *ev.Violation {
	in := *cs.Item.In
	il := gen.Materialise(in)
	old := gen.TextForm(in, il)
	inner := tabular.NewCell(il.V)
	applyMut(il, in, *cs.Mut)
	if inner.String() != old {
		return ev.V("inner cell re-read its mutated item without Update: %q, was %q", inner.String(), old)
	}
	var outer tabular.Cell
	if cs.Item.K == "pcell" {
		outer = tabular.NewCell(&inner)
	} else {
		outer = tabular.NewCell(inner)
	}
	for _, step := range []string{"wrapped after the item was mutated", "outer Update()"} {
		if outer.String() != old {
			return ev.V("%s: a cell holding a cell shows %q, the inner cell's text is %q (the innermost item now reads %q)", step, outer.String(), old, gen.TextForm(in, il))
		}
		if outer.Empty() != (old == "") {
			return ev.V("%s: outer cell Empty()=%v, inner cell's text is %q", step, outer.Empty(), old)
		}
		outer.Update()
	}
	// once the inner cell itself is updated and re-wrapped the new text shows
	inner.Update()
	now := gen.TextForm(in, il)
	if o2 := tabular.NewCell(inner); o2.String() != now {
		return ev.V("after the inner cell was updated a cell wrapping it shows %q, want %q", o2.String(), now)
	}
	return nil
}

func CheckCase(cs Case) *ev.Violation {
	if (cs.Item.K == "cell" || cs.Item.K == "pcell") && cs.Item.In != nil && cs.Mut != nil && Mutable(*cs.Item.In) {
		if v := checkNestedStale(cs); v != nil {
			return v
		}
	}
	// A: stand-alone cell
	live := gen.Materialise(cs.Item)
	want := gen.TextForm(cs.Item, live)
	c := tabular.NewCell(live.V)
	if v := observe("NewCell", &c, want, live.V); v != nil {
		return v
	}
	if v := sizeFollowsText("NewCell", &c, want, cs.Item); v != nil {
		return v
	}
	// B: the same item in a table, looked up and rendered
	live2 := gen.Materialise(cs.Item)
	want2 := gen.TextForm(cs.Item, live2)
	t := tabular.New()
	t.AddRowItems(live2.V)
	tc, err := t.CellAt(tabular.CellLocation{Row: 1, Column: 1})
	if err != nil {
		return ev.V("CellAt(1,1): %v", err)
	}
	if v := observe("cell in table", tc, want2, live2.V); v != nil {
		return v
	}
	if v := allShow(t, want2); v != nil {
		return v
	}
	// C: the same item in a headed table whose column is marked skipable (every renderer has something to read there)
	live3 := gen.Materialise(cs.Item)
	want3 := gen.TextForm(cs.Item, live3)
	t3 := tabular.New()
	t3.AddHeaders("h")
	t3.AddRowItems(live3.V)
	t3.Column(1).SetProperty(properties.Skipable, true)
	t3.Column(0).SetProperty(properties.Skipable, true)
	tc3, err := t3.CellAt(tabular.CellLocation{Row: 1, Column: 1})
	if err != nil {
		return ev.V("CellAt(1,1) of a headed table: %v", err)
	}
	if cs.Mut == nil || !Mutable(cs.Item) {
		// Update without mutation changes nothing
		c.Update()
		return observe("Update without mutation", &c, want, live.V)
	}
	// mutate behind the cell's back: nothing is re-read until asked
	applyMut(live, cs.Item, *cs.Mut)
	applyMut(live2, cs.Item, *cs.Mut)
	// every read-only accessor, debugging dump and formatter may run in between: none of them is an Update
	readOnly(&c, nil)
	readOnly(tc, t)
	// D: a row built on its own; the item changes between Row.Add and AddRow, and the table (and the column) has add-time
	// cell callbacks that only look: joining a table is not an Update either
	live4 := gen.Materialise(cs.Item)
	want4 := gen.TextForm(cs.Item, live4)
	t4 := tabular.New()
	t4.AddHeaders("h")
	t4.RegisterPropertyCallback(t4, tabular.CB_AT_ADD, tabular.CB_ON_CELL, lookOnly{})
	t4.RegisterPropertyCallback(t4.Column(1), tabular.CB_AT_ADD, tabular.CB_ON_CELL, lookOnly{})
	r4 := tabular.NewRow()
	r4.Add(tabular.NewCell(live4.V))
	applyMut(live4, cs.Item, *cs.Mut)
	t4.AddRow(r4)
	tc4, err := t4.CellAt(tabular.CellLocation{Row: 1, Column: 1})
	if err != nil {
		return ev.V("CellAt(1,1) of a table whose row was built on its own: %v", err)
	}
	if v := observe("row built on its own, item mutated before AddRow, add-time cell callbacks registered", tc4, want4, live4.V); v != nil {
		return v
	}
	applyMut(live3, cs.Item, *cs.Mut)
	for _, style := range []string{"json", "csv", "html", "markdown", "utf8-light", "none"} {
		auto.Render(t3, style) // rendering is reading: in no format is it an Update
	}
	if v := observe("in a headed table with a skipable column, after mutation and a render in every format, before Update", tc3, want3, live3.V); v != nil {
		return v
	}
	if v := observe("after mutation, before Update", &c, want, live.V); v != nil {
		return v
	}
	if v := observe("in table, after mutation, before Update", tc, want2, live2.V); v != nil {
		return v
	}
	if v := allShow(t, want2); v != nil {
		return v
	}
	// Update on a free-standing by-value copy of the table's cell concerns that copy only
	cp := *tc
	cp.Update()
	if cp.String() != gen.TextForm(cs.Item, live2) {
		return ev.V("a by-value copy of the cell, updated, shows %q, the item now reads %q", cp.String(), gen.TextForm(cs.Item, live2))
	}
	if v := observe("in table, after Update() of a by-value copy only", tc, want2, live2.V); v != nil {
		return v
	}
	newWant := gen.TextForm(cs.Item, live)
	c.Update()
	if v := observe("after mutation and Update", &c, newWant, live.V); v != nil {
		return v
	}
	if v := sizeFollowsText("after mutation and Update", &c, newWant, cs.Item); v != nil {
		return v
	}
	newWant2 := gen.TextForm(cs.Item, live2)
	tc.Update()
	if v := observe("in table, after mutation and Update", tc, newWant2, live2.V); v != nil {
		return v
	}
	if v := sizeFollowsText("in table, after mutation and Update", tc, newWant2, cs.Item); v != nil {
		return v
	}
	if v := allShow(t, newWant2); v != nil {
		return v
	}
	// a second Update is idempotent
	c.Update()
	return observe("after second Update", &c, newWant, live.V)
}

// lookOnly is a callback that reads the cell it is handed and sets nothing.
type lookOnly struct{}

func (lookOnly) UpdateProperties(po tabular.PropertyOwner) error {
	if c, ok := po.(*tabular.Cell); ok {
		_ = c.String()
	}
	return nil
}

// readOnly exercises everything that reads a cell or table without being asked to update it.
func readOnly(c *tabular.Cell, t *tabular.ATable) {
	_ = fmt.Sprintf("%#v|%v|%s", c, c, c)
	_ = c.GoString()
	_, _, _ = c.Height(), c.TerminalCellWidth(), c.Item()
	for l, k := c.Lines(), 0; k < len(l); k++ {
		l[k] = "scribbled by the caller" // the list of lines handed out is the caller's
	}
	_ = tabular.NewCell(*c) // wrapping the cell in another cell reads its text, not its item
	if t != nil {
		_ = fmt.Sprintf("%#v", t)
		for _, r := range t.AllRows() {
			_ = fmt.Sprintf("%#v", r)
			_ = r.Cells()
		}
		_, _ = t.Headers(), t.NColumns()
		_ = t.Errors()
	}
}

// allShow: the renderers show the same text for a one-cell table.
func allShow(t tabular.Table, want string) *ev.Violation {
	if v := csvShows(t, want); v != nil {
		return v
	}
	// text, boxless: the content lines are the text lines padded with spaces
	tt := texttable.Wrap(t)
	tt.SetDecoration(decoration.NoBox())
	out, err := tt.Render()
	if err != nil {
		return ev.V("boxless text render of a 1x1 table failed: %v", err)
	}
	got := strings.Split(strings.TrimSuffix(out, "\n"), "\n")
	if out == "" {
		got = nil
	}
	lines := oracle.Lines(want)
	if len(got) < len(lines) {
		return ev.V("boxless text render shows %d lines, the cell text %q has %d", len(got), want, len(lines))
	}
	for i := range got {
		w := ""
		if i < len(lines) {
			w = lines[i]
		}
		if strings.TrimRight(got[i], " ") != strings.TrimRight(w, " ") {
			return ev.V("boxless text render line %d is %q, the cell's text line is %q", i, got[i], w)
		}
	}
	if utf8.ValidString(want) && !strings.Contains(want, "\x00") {
		ho, err := html.Wrap(t).Render()
		if err != nil {
			return ev.V("html render of a 1x1 table failed: %v", err)
		}
		toks, terr := oracle.TokenizeHTML(ho)
		if terr != nil {
			return ev.V("html of a 1x1 table does not tokenise: %v", terr)
		}
		found := false
		for i, tk := range toks {
			if tk.Tag && !tk.Close && tk.Name == "td" {
				raw := ""
				if i+1 < len(toks) && !toks[i+1].Tag {
					raw = toks[i+1].Text
				}
				found = true
				if d := stdhtml.UnescapeString(raw); d != want {
					return ev.V("html shows %q, cell text should be %q", d, want)
				}
			}
		}
		if !found {
			return ev.V("html of a 1x1 table has no td: %s", ho)
		}
	}
	return nil
}

// csvShows: a renderer shows the same text (1x1 table through CSV, parsed back strictly).
func csvShows(t tabular.Table, want string) *ev.Violation {
	out, err := csv.Render(t)
	if err != nil {
		return ev.V("csv render of a 1x1 table failed: %v", err)
	}
	recs, perr := oracle.ParseCSV([]byte(out))
	if perr != nil || len(recs) != 1 || len(recs[0]) != 1 {
		return ev.V("csv of a 1x1 table does not parse to one field: %v %q", perr, out)
	}
	if recs[0][0] != want {
		return ev.V("csv shows %q, cell text should be %q", recs[0][0], want)
	}
	return nil
}

func popcount3(m int) int { return m&1 + m>>1&1 + m>>2&1 }

func depth(it gen.Item) int {
	if it.In == nil {
		return 0
	}
	return 1 + depth(*it.In)
}

func Classify(cs Case) (bool, interface{}, []string) {
	it := cs.Item
	live := gen.Materialise(it)
	text := gen.TextForm(it, live)
	mutated := cs.Mut != nil && Mutable(it)
	classes := []string{"kind-" + it.K}
	nt := false
	m := it.EffMask()
	if popcount3(m) >= 2 {
		nt = true
		classes = append(classes, "multi-text-iface")
	}
	if m&(gen.MHeight|gen.MWidth) != 0 {
		classes = append(classes, "size-override")
	}
	switch it.K {
	case "rune", "cell", "pcell", "nil":
		nt = true
	}
	if text == "" {
		nt = true
		classes = append(classes, "empty-text")
	}
	if mutated {
		nt = true
		applyMut(live, it, *cs.Mut)
		after := gen.TextForm(it, live)
		switch {
		case text == "" && after != "":
			classes = append(classes, "mut-empty-to-nonempty")
		case text != "" && after == "":
			classes = append(classes, "mut-nonempty-to-empty")
		case text != after:
			classes = append(classes, "mut-different")
		default:
			classes = append(classes, "mut-same-text")
		}
	}
	if it.P {
		classes = append(classes, "by-pointer")
	}
	textKey := text
	inner := it
	for inner.In != nil {
		inner = *inner.In
	}
	if (inner.K == "if" && inner.M&7 == 0) || inner.K == "psx" {
		textKey = "" // %v of a pointer: the address is not part of the case's identity
	}
	key := fmt.Sprintf("%s|%d|%v|%d|%x|%v", it.K, m, it.P, depth(it), ev.Hash64(textKey), mutated)
	if mutated {
		key += fmt.Sprintf("|%x", ev.Hash64(cs.Mut))
	}
	return nt, key, classes
}
