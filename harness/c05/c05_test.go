package c05

import (
	"os"
	"testing"

	"pgregory.net/rapid"

	"verif/harness/internal/ev"
	"verif/harness/internal/gen"
	"verif/harness/internal/h"
)

var prop = h.Prop[Case]{ID: ID, Check: CheckCase, Classify: Classify}

func TestMain(m *testing.M) { os.Exit(ev.Main(ID, m)) }

func TestReplay(t *testing.T) { prop.Replay(t, nil) }

func caseGen() *rapid.Generator[Case] {
	max := 14
	if h.Thorough() {
		max = 24
	}
	sg := gen.ScriptGen(gen.ScriptOpts{
		AllowProps: true, AllowRowErr: true, AllowMutate: true, AllowReAdd: true, Item: mixed(),
		MinOps:    1,
		MaxOps:    max,
		MaxCells:  4,
		HeavyTail: 12,
		Creators:  []string{"core", "core", "csv"},
	})
	return rapid.Custom(func(t *rapid.T) Case {
		c := Case{Script: sg.Draw(t, "script")}
		if rapid.IntRange(0, 2).Draw(t, "pre?") == 0 {
			c.Pre = 1 + rapid.IntRange(0, len(c.Script.Ops)).Draw(t, "pre")
		}
		c.File = gen.Rarely(t, "file", 12)
		if rapid.IntRange(0, 3).Draw(t, "fault?") == 0 {
			c.Fault = 1 + rapid.IntRange(0, 12).Draw(t, "fault")
		}
		return c
	})
}

func mixed() *rapid.Generator[gen.Item] {
	b := gen.BytesItem(gen.TokCSV)
	a := gen.AnyItem(gen.TokCSV, 1)
	long := gen.BoundaryString(gen.TokCSV)
	hot := gen.ExpandingString([]string{"\"", "\"", ",", "\r\n", "\n"})
	return rapid.Custom(func(t *rapid.T) gen.Item {
		switch rapid.IntRange(0, 39).Draw(t, "any") {
		case 0, 1, 2, 3, 4:
			return a.Draw(t, "any-item")
		case 5:
			return gen.S(long.Draw(t, "long")) // record buffers have sizes too
		case 6, 7:
			return gen.S(hot.Draw(t, "hot")) // a quoted field grows by one byte per quote it holds
		}
		return b.Draw(t, "bytes-item")
	})
}

func TestProp(t *testing.T) { prop.Rapid(t, caseGen()) }

// FuzzC05 decodes fuzzer strings into a small table.
func FuzzC05(f *testing.F) {
	f.Add("h", "a", "b", "c", uint8(0))
	f.Add("\"", "a,b", "x\r\ny", "\xff\"", uint8(0xff))
	f.Add("", "\"\"", "\n", "", uint8(0x15))
	f.Fuzz(func(t *testing.T, hd, a, b, c string, shape uint8) {
		cs := MkFuzzCase(hd, a, b, c, shape)
		if v := prop.Eval(cs); v != nil {
			t.Fatalf("VIOLATION %s: %s", ID, firstLine(v.Msg))
		}
	})
}

func MkFuzzCase(hd, a, b, c string, shape uint8) Case {
	var ops []gen.Op
	if shape&1 != 0 {
		if shape&2 != 0 {
			ops = append(ops, gen.Op{K: "hdr", Items: []gen.Item{gen.S(hd), gen.S(a)}})
		} else {
			ops = append(ops, gen.Op{K: "hdr", Items: []gen.Item{gen.S(hd)}})
		}
	}
	ops = append(ops, gen.Op{K: "rowitems", Items: []gen.Item{gen.S(a), gen.S(b), gen.S(c)}[:int(shape>>2)%4]})
	if shape&0x10 != 0 {
		ops = append(ops, gen.Op{K: "sep"})
	}
	ops = append(ops, gen.Op{K: "rowitems", Items: []gen.Item{gen.S(c), gen.S(b)}[:int(shape>>5)%3]})
	if shape&0x80 != 0 {
		ops = append(ops, gen.Op{K: "appendnew"}, gen.Op{K: "rowadd", Ref: len(ops), Items: []gen.Item{gen.S(hd)}})
	}
	return Case{Script: gen.Script{Ops: ops}}
}

func firstLine(s string) string {
	for i := 0; i < len(s); i++ {
		if s[i] == '\n' {
			return s[:i]
		}
	}
	return s
}
