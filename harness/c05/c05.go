// Package c05: CSV output parses back, under RFC 4180 quoting, to exactly the table.
package c05

import (
	"bytes"
	"fmt"
	"os"
	"strings"

	"go.pennock.tech/tabular/csv"

	"verif/harness/internal/ev"
	"verif/harness/internal/gen"
	"verif/harness/internal/oracle"
)

const ID = "C05"

// Case is a build history of string cells.
type Case struct {
	Script gen.Script `json:"script"`
	// Fault > 0: before the render that is checked, the same wrapper renders into a writer whose write
	// number Fault-1 accepts half of its bytes and fails; that must not leave anything behind.
	Fault int `json:"fault,omitempty"`
	// Pre > 0: the wrapper is created and the table rendered once (through it and through csv.Render) after Pre-1
	// operations, while the table is still being built; the checked render goes through that same wrapper.
	Pre int `json:"pre,omitempty"`
	// File: the checked output is (also) written with RenderTo into a file that already holds a line of text
	// (a seekable writer that is not at its beginning): what is appended there is the same CSV
	File bool `json:"file,omitempty"`
}

type halfWriter struct {
	k, calls int
}

func (w *halfWriter) Write(p []byte) (int, error) {
	i := w.calls
	w.calls++
	if i == w.k {
		return len(p) / 2, fmt.Errorf("injected write failure")
	}
	return len(p), nil
}

// Expected computes the records the statement demands from the model.
func Expected(m *gen.Model) [][]string {
	n := m.NCols()
	var out [][]string
	row := func(cells []gen.MCell) {
		rec := make([]string, n)
		for i := range cells {
			rec[i] = cells[i].Text
		}
		out = append(out, rec)
	}
	if m.HeaderSet {
		row(m.Header)
	}
	for _, r := range m.DataRows() {
		row(r.Cells)
	}
	return out
}

func CheckCase(c Case) *ev.Violation {
	t := gen.NewTable(c.Script.Creator)
	m := &gen.Model{}
	var early *csv.CSVTable
	for i, op := range c.Script.Ops {
		if c.Pre > 0 && i == c.Pre-1 {
			early = csv.Wrap(t)
			early.Render()
			csv.Render(t)
		}
		m.Step(t, op)
	}
	ncols := m.NCols()
	if t.NColumns() != ncols {
		return ev.V("NColumns()=%d but the build history has %d columns", t.NColumns(), ncols)
	}
	gen.ScrambleRowsCopy(t) // the caller may do what it likes with the copy it was handed
	w := early
	if w == nil {
		w = csv.Wrap(t)
	}
	if c.Fault > 0 {
		hw := &halfWriter{k: c.Fault - 1}
		if err := w.RenderTo(hw); err == nil && hw.calls > hw.k {
			return ev.V("write %d failed but RenderTo returned nil", hw.k)
		}
	}
	out, err := w.Render()
	if ncols == 0 {
		if err == nil {
			return ev.V("table with no columns rendered without error: %q", out)
		}
		if out != "" {
			return ev.V("error %v but non-empty output %q", err, out)
		}
		return nil
	}
	if err != nil {
		return ev.V("render failed on a table with %d columns: %v", ncols, err)
	}
	recs, perr := oracle.ParseCSV([]byte(out))
	if perr != nil {
		return ev.V("output is not strict all-quoted RFC 4180: %v\noutput: %q", perr, out)
	}
	want := Expected(m)
	if len(recs) != len(want) {
		return ev.V("parsed %d records, want %d\noutput: %q", len(recs), len(want), out)
	}
	for i := range want {
		if len(recs[i]) != ncols {
			return ev.V("record %d has %d fields, want %d\noutput: %q", i, len(recs[i]), ncols, out)
		}
		for j := range want[i] {
			if recs[i][j] != want[i][j] {
				return ev.V("record %d field %d = %q, want %q\noutput: %q", i, j, recs[i][j], want[i][j], out)
			}
		}
	}
	// the three entry points agree
	var b bytes.Buffer
	if err := w.RenderTo(&b); err != nil || b.String() != out {
		return ev.V("RenderTo wrote %q (err %v), Render returned %q", b.String(), err, out)
	}
	if c.File {
		f, ferr := os.CreateTemp("", "verif-c05-*.csv")
		if ferr != nil {
			return nil // no scratch file, nothing to check
		}
		defer os.Remove(f.Name())
		defer f.Close()
		const preamble = "# written earlier\n"
		f.WriteString(preamble)
		if err := w.RenderTo(f); err != nil {
			return ev.V("RenderTo into a file that already holds a line failed: %v", err)
		}
		back, _ := os.ReadFile(f.Name())
		if string(back) != preamble+out {
			return ev.V("RenderTo into a file that already holds a line appended %q, Render returned %q", strings.TrimPrefix(string(back), preamble), out)
		}
	}
	if out2, err := csv.Render(t); err != nil || out2 != out {
		return ev.V("csv.Render gave %q (err %v), wrapper Render %q", out2, err, out)
	}
	return nil
}

func special(s string) bool { return strings.ContainsAny(s, "\",\r\n") }

func Classify(c Case) (bool, interface{}, []string) {
	var classes []string
	nt := false
	ncells := 0
	hdr := false
	sep := false
	for _, op := range c.Script.Ops {
		switch op.K {
		case "hdr":
			hdr = true
			if len(op.Items) == 0 {
				classes = append(classes, "zero-cell-header")
				nt = true
			}
		case "sep":
			sep = true
		case "appendnew", "zerorow":
			classes = append(classes, "zero-cell-row")
			nt = true
		case "rowitems":
			if len(op.Items) == 0 {
				classes = append(classes, "zero-cell-row")
				nt = true
			}
		}
		for i, it := range op.Items {
			ncells++
			s := string(it.S)
			if special(s) {
				nt = true
				switch {
				case len(op.Items) == 1:
					classes = append(classes, "special-only")
				case i == 0:
					classes = append(classes, "special-first")
				case i == len(op.Items)-1:
					classes = append(classes, "special-last")
				default:
					classes = append(classes, "special-middle")
				}
			}
			if !validUTF8(s) {
				classes = append(classes, "invalid-utf8")
			}
			if strings.Contains(s, "\x00") {
				classes = append(classes, "nul")
			}
		}
	}
	if sep {
		classes = append(classes, "separator")
		nt = true
	}
	if hdr {
		classes = append(classes, "header")
	}
	if c.Fault > 0 {
		classes = append(classes, "failed-render-first")
	}
	return nt, nil, dedup(classes)
}

func validUTF8(s string) bool {
	for _, r := range s {
		if r == 0xfffd {
			return strings.ToValidUTF8(s, "") == s
		}
	}
	return true
}

func dedup(in []string) []string {
	seen := map[string]bool{}
	var out []string
	for _, s := range in {
		if !seen[s] {
			seen[s] = true
			out = append(out, s)
		}
	}
	return out
}
