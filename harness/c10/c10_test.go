package c10

import (
	"fmt"
	"os"
	"testing"

	"pgregory.net/rapid"

	"verif/harness/internal/ev"
	"verif/harness/internal/gen"
	"verif/harness/internal/h"
)

var prop = h.Prop[Case]{ID: ID, Check: CheckCase, Classify: Classify}

func TestMain(m *testing.M) { os.Exit(ev.Main(ID, m)) }

func TestReplay(t *testing.T) { prop.Replay(t, nil) }

// Creators: core, each sub-package New, auto.New of every listed style (and some variants).
var Creators = []string{"core", "csv", "html", "json", "markdown", "texttable",
	"auto:csv", "auto:html", "auto:json", "auto:markdown", "auto:texttable", "auto:ascii-simple", "auto:none", "auto:utf8-light",
	"auto:utf8-light-curved", "auto:utf8-heavy", "auto:utf8-double", "auto:texttable.utf8-light", "auto:CSV", "auto:Json.x"}

func itemGen() *rapid.Generator[gen.Item] {
	anyItem := gen.AnyItem(gen.TokWidth, 1)
	str := gen.StrItem(gen.TokWidth, 3)
	return rapid.Custom(func(t *rapid.T) gen.Item {
		if rapid.IntRange(0, 2).Draw(t, "mixed") == 0 {
			return gen.NoAddressText(anyItem.Draw(t, "any"))
		}
		return str.Draw(t, "str")
	})
}

func caseGen() *rapid.Generator[Case] {
	max := 8
	if h.Thorough() {
		max = 14
	}
	mutKey := gen.IfaceItem([]string{"k", "h1", "h2", "name", "é", "n"}, 1)
	key := rapid.Custom(func(t *rapid.T) gen.Item {
		if rapid.IntRange(0, 3).Draw(t, "mutable-key") == 0 {
			return mutKey.Draw(t, "mkey") // a heading whose item can change later (mutate + Update on the header cell)
		}
		return gen.S(gen.StringOf([]string{"k", "h1", "h2", "h3", "name", "x y", "é", "\"q\""}, 1, 2).Draw(t, "key"))
	})
	opts := gen.ScriptOpts{AllowProps: true, AllowRowErr: true, Item: itemGen(), HdrItem: key, MinOps: 0, MaxOps: max, MaxCells: 3, HdrCells: [2]int{1, 5}, ForceHdr: true, MultiHdr: true, AllowMutate: true, AllowCopy: true, Creators: Creators}
	withHdr := gen.ScriptGen(opts)
	opts.ForceHdr = false
	anyHdr := gen.ScriptGen(opts)
	return rapid.Custom(func(t *rapid.T) Case {
		var c Case
		if rapid.IntRange(0, 4).Draw(t, "hdrmode") == 0 {
			c.Script = anyHdr.Draw(t, "script")
		} else {
			c.Script = withHdr.Draw(t, "script")
		}
		gen.TwinItems(t, c.Script.Ops)
		c.Chain = rapid.SliceOfN(rapid.SampledFrom(WrapKinds), 0, 3).Draw(t, "chain")
		c.Late = rapid.Bool().Draw(t, "late")
		c.Target = rapid.SampledFrom(Targets).Draw(t, "target")
		c.Align = rapid.SliceOfN(rapid.IntRange(0, 3), 0, 5).Draw(t, "align")
		c.Skip = rapid.SliceOfN(rapid.IntRange(0, 2), 0, 5).Draw(t, "skip")
		c.Poison = rapid.IntRange(0, 3).Draw(t, "poison") == 0
		c.AppCB = rapid.SampledFrom([]int{0, 0, 0, 1, 1, 2}).Draw(t, "appcb")
		if gen.Rarely(t, "churn", 12) {
			c.Churn = rapid.SampledFrom([]int{66, 67, 130, 131}).Draw(t, "churn-n") // past 64 and 128 registrations of one renderer before the other comes
		}
		if rapid.IntRange(0, 3).Draw(t, "props?") == 0 {
			c.Props = gen.PropHistGen(8).Draw(t, "props")
		}
		if rapid.IntRange(0, 2).Draw(t, "pre?") == 0 {
			c.Pre = 1 + rapid.IntRange(0, len(c.Script.Ops)).Draw(t, "pre")
		}
		return c
	})
}

func TestProp(t *testing.T) { prop.Rapid(t, caseGen()) }

// TestShadow: the same search in a process where the application has registered decorations of its own under the
// very names of the formats ("csv", "json", ... are legal decoration names): the format names keep meaning the formats.
func TestShadow(t *testing.T) {
	g := caseGen()
	prop.Rapid(t, rapid.Custom(func(t *rapid.T) Case {
		c := g.Draw(t, "case")
		c.Shadow = true
		return c
	}))
}

// TestEnum: fixed contents x every creator x every chain of depth <= 2 x every target.
func TestEnum(t *testing.T) {
	s := gen.S
	contents := [][]gen.Op{
		{{K: "hdr", Items: []gen.Item{s("name"), s("n")}}, {K: "rowitems", Items: []gen.Item{s("alpha"), {K: "int", N: 1}}}, {K: "sep"}, {K: "rowitems", Items: []gen.Item{s("b\nb")}}},
		{{K: "rowitems", Items: []gen.Item{s("漢字"), s("")}}, {K: "appendnew"}, {K: "rowadd", Ref: -1, Items: []gen.Item{s("late"), s("x"), s("y")}}},
	}
	chains := [][]string{nil}
	for _, a := range WrapKinds {
		chains = append(chains, []string{a})
		for _, b := range WrapKinds {
			chains = append(chains, []string{a, b})
		}
	}
	shard, shards := h.Shard()
	var n int64
	i := 0
	for _, ops := range contents {
		for _, cr := range Creators {
			for _, ch := range chains {
				for _, tg := range Targets {
					for _, late := range []bool{false, true} {
						i++
						if i%shards != shard {
							continue
						}
						n++
						c := Case{Script: gen.Script{Creator: cr, Ops: ops}, Chain: ch, Target: tg, Late: late, Align: []int{2, 0, 3}}
						if v := prop.Eval(c); v != nil {
							t.Fatalf("VIOLATION %s", ID)
						}
					}
				}
			}
		}
	}
	ev.R().Sub(ev.SubRun{Name: "routes", Bound: fmt.Sprintf("%d contents x %d creation paths x %d wrapper chains (depth<=2 over %d kinds) x %d targets x {build through wrapper, wrap after build}, all entry points each", len(contents), len(Creators), len(chains), len(WrapKinds), len(Targets)), Cases: n, Exhaustive: true})
}
