// Package c10: a table renders the same whatever wrapper created it or is wrapped around it.
package c10

import (
	"bytes"
	"fmt"
	"io"
	"math"
	"strings"
	"sync"

	"go.pennock.tech/tabular"
	"go.pennock.tech/tabular/auto"
	"go.pennock.tech/tabular/csv"
	"go.pennock.tech/tabular/html"
	"go.pennock.tech/tabular/json"
	"go.pennock.tech/tabular/markdown"
	"go.pennock.tech/tabular/properties"
	"go.pennock.tech/tabular/properties/align"
	"go.pennock.tech/tabular/texttable"
	"go.pennock.tech/tabular/texttable/decoration"

	"verif/harness/internal/ev"
	"verif/harness/internal/gen"
	"verif/harness/internal/tc"
)

const ID = "C10"

// Targets: the four non-text formats and the six registered decorations.
var Targets = []string{"csv", "html", "json", "markdown", "ascii-simple", "none", "utf8-light", "utf8-light-curved", "utf8-heavy", "utf8-double"}

// WrapKinds: what may be nested around the table ("texttable:<deco>" = a text wrapper set to that decoration).
var WrapKinds = []string{"csv", "html", "json", "markdown", "texttable", "texttable:ascii-simple", "texttable:none", "app"}

type Case struct {
	Script gen.Script   `json:"script"`          // Script.Creator is the creation path
	Chain  []string     `json:"chain,omitempty"` // wrappers nested around the created table, innermost first
	Late   bool         `json:"late,omitempty"`  // wrap after building (else build through the outermost wrapper)
	Target string       `json:"target"`
	Align  []int        `json:"align,omitempty"`
	Skip   []int        `json:"skip,omitempty"` // skipable per column (0 unset, 1 true, 2 false)
	Pre    int          `json:"pre,omitempty"`
	Props  []gen.PropOp `json:"props,omitempty"`  // a property history on the columns, after Align and Skip
	Churn  int          `json:"churn,omitempty"` // before anything is compared the finished table is rendered that many times through package-level functions (fresh wrappers each time): as text if the count is even, as Markdown if it is odd
	AppCB  int          `json:"appcb,omitempty"` // an application's own render-time cell callback, registered right after the table is created: 1 it reports an error for every other cell, 2 it never fails
	Shadow bool         `json:"shadow,omitempty"` // the application has registered decorations of its own under the names of the formats (process-wide)
	Poison bool         `json:"poison,omitempty"` // first, a sibling table is rendered in the target format and fails part-way  // >0: a long-lived target wrapper is created and rendered after Pre-1 operations, and rendered again at the end
}

// appTable is an application's own table type: it embeds a tabular.Table (the documentation invites that) and
// adds nothing.  Handed around by value.
type appTable struct{ tabular.Table }

func wrapOne(t tabular.Table, kind string) tabular.Table {
	switch {
	case kind == "app":
		return appTable{t}
	case kind == "csv":
		return csv.Wrap(t)
	case kind == "html":
		return html.Wrap(t)
	case kind == "json":
		return json.Wrap(t)
	case kind == "markdown":
		return markdown.Wrap(t)
	case kind == "texttable":
		return texttable.Wrap(t)
	case strings.HasPrefix(kind, "texttable:"):
		tt := texttable.Wrap(t)
		tt.SetDecorationNamed(kind[len("texttable:"):])
		return tt
	}
	panic("c10: unknown wrapper kind " + kind)
}

type renderer interface {
	Render() (string, error)
	RenderTo(io.Writer) error
}

// targetWrap is X.Wrap(t) for the target format (a text wrapper set to the decoration).
func targetWrap(t tabular.Table, target string) renderer {
	switch target {
	case "csv":
		return csv.Wrap(t)
	case "html":
		return html.Wrap(t)
	case "json":
		return json.Wrap(t)
	case "markdown":
		return markdown.Wrap(t)
	}
	tt := texttable.Wrap(t)
	tt.SetDecorationNamed(target)
	return tt
}

func settings(t tabular.Table, c Case) {
	n := t.NColumns()
	for i := 0; i <= n && i < len(c.Align); i++ {
		if v := tc.AlignValue(c.Align[i]); v != nil {
			t.Column(i).SetProperty(align.PropertyType, v)
		}
	}
	for i := 0; i <= n && i < len(c.Skip); i++ {
		switch c.Skip[i] {
		case 1:
			t.Column(i).SetProperty(properties.Skipable, true)
		case 2:
			t.Column(i).SetProperty(properties.Skipable, false)
		}
	}
	gen.ApplyProps(t, c.Props, n, nil, nil)
}

type result struct {
	route string
	out   string
	err   error
}

func viaWriter(f func(io.Writer) error) (string, error) {
	var b bytes.Buffer
	err := f(&b)
	if err != nil {
		return "", err
	}
	return b.String(), nil
}

// routes renders t through every entry point that should give the target format.
func routes(t tabular.Table, target string) []result {
	var rs []result
	add := func(route string, out string, err error) { rs = append(rs, result{route, out, err}) }
	w := targetWrap(t, target)
	o, e := w.Render()
	add("X.Wrap(t).Render()", o, e)
	o, e = viaWriter(targetWrap(t, target).RenderTo)
	add("X.Wrap(t).RenderTo(w)", o, e)
	o, e = viaWriter(w.RenderTo)
	add("same wrapper RenderTo after Render", o, e)
	switch target {
	case "csv":
		o, e = csv.Render(t)
		add("csv.Render(t)", o, e)
		o, e = viaWriter(func(w io.Writer) error { return csv.RenderTo(t, w) })
		add("csv.RenderTo(t,w)", o, e)
	case "html":
		// the html package has no package-level Render
	case "json":
		o, e = json.Render(t)
		add("json.Render(t)", o, e)
		o, e = viaWriter(func(w io.Writer) error { return json.RenderTo(t, w) })
		add("json.RenderTo(t,w)", o, e)
	case "markdown":
		o, e = markdown.Render(t)
		add("markdown.Render(t)", o, e)
		o, e = viaWriter(func(w io.Writer) error { return markdown.RenderTo(t, w) })
		add("markdown.RenderTo(t,w)", o, e)
	case "utf8-heavy":
		// the default decoration of texttable
		o, e = texttable.Render(t)
		add("texttable.Render(t)", o, e)
		o, e = viaWriter(func(w io.Writer) error { return texttable.RenderTo(t, w) })
		add("texttable.RenderTo(t,w)", o, e)
		o, e = auto.Render(t, "texttable")
		add("auto.Render(t,texttable)", o, e)
		o, e = texttable.Wrap(t).Render()
		add("texttable.Wrap(t).Render() default decoration", o, e)
	}
	styles := []string{target}
	if len(target) > 4 && target != "markdown" {
		styles = append(styles, "texttable."+target)
	}
	for _, st := range styles {
		o, e = auto.Render(t, st)
		add("auto.Render(t,"+st+")", o, e)
		o, e = viaWriter(func(w io.Writer) error { return auto.RenderTo(t, w, st) })
		add("auto.RenderTo(t,w,"+st+")", o, e)
		o, e = auto.Wrap(t, st).Render()
		add("auto.Wrap(t,"+st+").Render()", o, e)
	}
	return rs
}

func isText(target string) bool {
	switch target {
	case "csv", "html", "json", "markdown":
		return false
	}
	return true
}

// poison renders a sibling table that fails part-way (an item JSON cannot encode, in its second row) through
// every entry point of the target format: a failed render of one table must not leave anything behind for another.
func poison(target string) {
	sib := tabular.New()
	sib.AddHeaders("a", "b")
	sib.AddRowItems("x", 1)
	sib.AddRowItems("y", math.NaN())
	targetWrap(sib, target).Render()
	auto.Render(sib, target)
	w := targetWrap(sib, target)
	w.RenderTo(&failAfter{n: 3})
}

type failAfter struct{ n int }

func (f *failAfter) Write(p []byte) (int, error) {
	f.n--
	if f.n < 0 {
		return len(p) / 2, fmt.Errorf("injected write failure")
	}
	return len(p), nil
}

var shadowOnce sync.Once

// registerShadows: "csv", "json", ... are legal decoration names; the format names keep meaning the formats.
func registerShadows() {
	shadowOnce.Do(func() {
		d := decoration.Named("utf8-double")
		for _, name := range []string{"csv", "html", "json", "markdown", "texttable", "CSV", "Json"} {
			decoration.RegisterDecorationName(name, d)
		}
	})
}

// appCallback is an application's own cell callback: it looks at the cell and, in its failing form, reports an
// error for the cells whose text has an odd length.  It sets nothing.
type appCallback struct{ fails bool }

func (a appCallback) UpdateProperties(po tabular.PropertyOwner) error {
	if cell, ok := po.(*tabular.Cell); ok && a.fails && len(cell.String())%2 == 1 {
		return fmt.Errorf("application callback: does not like %q", cell.String())
	}
	return nil
}

func registerApp(t tabular.Table, c Case) {
	if c.AppCB > 0 {
		t.RegisterPropertyCallback(t, tabular.CB_AT_RENDER, tabular.CB_ON_CELL, appCallback{fails: c.AppCB == 1})
	}
}

func CheckCase(c Case) *ev.Violation {
	if c.Shadow {
		registerShadows()
	}
	if c.Poison {
		poison(c.Target)
	}
	// reference: the same content on a core table, rendered exactly once by X.Wrap(t).Render()
	ref := gen.NewTable("core")
	registerApp(ref, c)
	refModel := &gen.Model{}
	for _, op := range c.Script.Ops {
		refModel.Step(ref, op)
	}
	settings(ref, c)
	wantOut, wantErr := targetWrap(ref, c.Target).Render()

	// the table under test: created by the chosen path, wrapped by the chain
	inner := gen.NewTable(c.Script.Creator)
	registerApp(inner, c)
	var t tabular.Table = inner
	var long renderer
	var handles []tabular.Table // every wrapper of the chain, innermost first
	var stepViolation *ev.Violation
	// refAt renders the first k operations on a fresh core table, once.
	refAt := func(k int) (string, error) {
		r := gen.NewTable("core")
		registerApp(r, c)
		rm := &gen.Model{}
		for _, op := range c.Script.Ops[:k] {
			rm.Step(r, op)
		}
		return targetWrap(r, c.Target).Render()
	}
	var foreign tabular.Table
	stepCmp := func(k int) {
		if stepViolation != nil {
			return
		}
		defer func() {
			// between two renders of the long-lived wrapper somebody else walks the table too: another renderer, or a bare callback pass
			if foreign != nil {
				switch k % 4 {
				case 0:
					csv.Wrap(foreign).RenderTo(io.Discard)
				case 1:
					foreign.InvokeRenderCallbacks()
				case 2:
					texttable.RenderTo(foreign, io.Discard) // a one-shot wrapper of the package-level helper comes and goes
				default:
					markdown.RenderTo(foreign, io.Discard)
				}
			}
		}()
		o, e := long.Render()
		wo, we := refAt(k)
		if (e != nil) != (we != nil) || o != wo {
			stepViolation = ev.V("long-lived wrapper, after %d of %d operations: output (err %v) differs from the same %d operations on a fresh core table (err %v)\n--- got\n%s\n--- want\n%s", k, len(c.Script.Ops), e, k, we, o, wo)
		}
	}
	build := func(on tabular.Table) {
		m := &gen.Model{}
		for i, op := range c.Script.Ops {
			if c.Pre > 0 && i == c.Pre-1 {
				long = targetWrap(on, c.Target)
				foreign = on
				stepCmp(i)
			}
			m.Step(on, op)
			if long != nil {
				stepCmp(i + 1)
			}
		}
		if c.Pre > 0 && long == nil {
			long = targetWrap(on, c.Target)
			foreign = on
			stepCmp(len(c.Script.Ops))
		}
	}
	if c.Late {
		build(inner)
		for _, k := range c.Chain {
			t = wrapOne(t, k)
			handles = append(handles, t)
		}
	} else {
		for _, k := range c.Chain {
			t = wrapOne(t, k)
			handles = append(handles, t)
		}
		build(t)
	}
	if stepViolation != nil {
		return stepViolation
	}
	settings(t, c)
	// a table that has been on screen for a long time: rendered again and again, each time through new wrappers
	for i := 0; i < c.Churn; i++ {
		if c.Churn%2 == 0 {
			texttable.RenderTo(t, io.Discard) // an even count: always as text
		} else {
			markdown.RenderTo(t, io.Discard) // an odd count: always as Markdown
		}
	}
	cmp := func(route, out string, err error) *ev.Violation {
		if (err != nil) != (wantErr != nil) {
			return ev.V("%s: error %v, but the same content on a core table gives error %v", route, err, wantErr)
		}
		if out != wantOut {
			return ev.V("%s differs from the same content built on a core table and rendered by X.Wrap(t).Render()\n--- got\n%s\n--- want\n%s", route, out, wantOut)
		}
		return nil
	}
	// first of all, before anybody else has wrapped the finished table: the creating wrapper's own Render, when it
	// is of the target kind (whatever a later Wrap would set up must not be needed)
	if r, ok := inner.(renderer); ok {
		own := creatorKind(c.Script.Creator)
		if x, isTT := inner.(*texttable.TextTable); isTT && isText(c.Target) {
			own = c.Target
			x.SetDecorationNamed(c.Target)
		}
		if own == c.Target {
			o, e := r.Render()
			if v := cmp(fmt.Sprintf("%T.Render() through the handle that created the table, before any other wrapper exists", inner), o, e); v != nil {
				return v
			}
		}
	}
	if long != nil {
		o, e := long.Render()
		if v := cmp("long-lived wrapper created before the table was complete", o, e); v != nil {
			return v
		}
	}
	for _, r := range routes(t, c.Target) {
		if v := cmp(r.route, r.out, r.err); v != nil {
			return v
		}
	}
	// every wrapper of the chain that is of the target kind renders the same, however often it is asked
	if creatorHandle, ok := inner.(renderer); ok {
		_ = creatorHandle
		handles = append([]tabular.Table{inner}, handles...)
	}
	for hi, hd := range handles {
		r, ok := hd.(renderer)
		if !ok {
			continue
		}
		own := ""
		switch x := hd.(type) {
		case *csv.CSVTable:
			own = "csv"
		case *html.HTMLTable:
			own = "html"
		case *json.JSONTable:
			own = "json"
		case *markdown.MarkdownTable:
			own = "markdown"
		case *texttable.TextTable:
			if isText(c.Target) {
				own = c.Target
				x.SetDecorationNamed(c.Target)
			}
		}
		if own != c.Target {
			continue
		}
		for rep := 0; rep < 3; rep++ {
			o, e := r.Render()
			if v := cmp(fmt.Sprintf("wrapper #%d of the nesting (%T), render %d through that handle", hi, hd, rep+1), o, e); v != nil {
				return v
			}
		}
	}
	// last (it changes the wrapper's decoration): the outermost wrapper's own Render, when it is of the target kind
	if r, ok := t.(renderer); ok {
		own := ""
		switch x := t.(type) {
		case *csv.CSVTable:
			own = "csv"
		case *html.HTMLTable:
			own = "html"
		case *json.JSONTable:
			own = "json"
		case *markdown.MarkdownTable:
			own = "markdown"
		case *texttable.TextTable:
			if isText(c.Target) {
				own = c.Target
				x.SetDecorationNamed(c.Target)
			}
		}
		if own == c.Target {
			o, e := r.Render()
			if v := cmp(fmt.Sprintf("%T.Render() of the table itself", t), o, e); v != nil {
				return v
			}
		}
	}
	return nil
}

func creatorKind(cr string) string {
	if strings.HasPrefix(cr, "auto:") {
		s := strings.ToLower(strings.SplitN(cr[5:], ".", 2)[0])
		switch s {
		case "csv", "html", "json", "markdown":
			return s
		}
		return "texttable"
	}
	if cr == "" {
		return "core"
	}
	return cr
}

func Classify(c Case) (bool, interface{}, []string) {
	cl := []string{"creator-" + creatorKind(c.Script.Creator), fmt.Sprintf("nesting-%d", len(c.Chain)), "target-" + c.Target}
	tk := c.Target
	if isText(tk) {
		tk = "texttable"
	}
	nt := creatorKind(c.Script.Creator) != "core"
	for _, k := range c.Chain {
		if strings.SplitN(k, ":", 2)[0] != tk {
			nt = true
		}
		if strings.Contains(k, ":") {
			cl = append(cl, "chain-has-decorated-text-wrapper")
		}
	}
	if c.Pre > 0 {
		cl = append(cl, "long-lived-wrapper")
	}
	if c.Late {
		cl = append(cl, "wrapped-after-build")
	}
	if c.AppCB == 1 {
		cl = append(cl, "application-callback-that-reports-errors")
	}
	if c.Churn > 0 {
		cl = append(cl, "rendered-many-times-before")
	}
	if c.Shadow {
		cl = append(cl, "decorations-registered-under-format-names")
	}
	if c.Poison {
		cl = append(cl, "failed-render-of-another-table-first")
	}
	return nt, nil, cl
}
