// Package c14: rendering is repeatable and leaves the table unchanged.
package c14

import (
	"errors"
	"fmt"
	"sync"

	"go.pennock.tech/tabular"
	"go.pennock.tech/tabular/auto"
	"go.pennock.tech/tabular/html"
	"go.pennock.tech/tabular/properties"
	"go.pennock.tech/tabular/properties/align"
	"go.pennock.tech/tabular/texttable"
	"go.pennock.tech/tabular/texttable/decoration"

	"verif/harness/internal/ev"
	"verif/harness/internal/gen"
	"verif/harness/internal/tc"
)

const ID = "C14"

var Styles = []string{"csv", "html", "json", "markdown", "ascii-simple", "none", "utf8-light", "utf8-light-curved", "utf8-heavy", "utf8-double"}

// Act is one step after the table has been built.
//
//	render   render in Style; Reuse = through the long-lived wrapper of that style (created at first use), else a fresh one
//	setprop  a user property (private key type) on Owner
//	mutate   change a mutable item behind its cell's back and call Cell.Update() (Op carries the gen "mutate" operation);
//	         from then on the table's content is the mutated one
//	copycell add a by-value copy of an existing (already measured) cell to a row (Op carries the gen "copycell" operation)
//	restyle  ONE text wrapper is kept for the whole case; each restyle act points it at another decoration - Style a
//	         registered name or an unknown one; Reuse = by object (SetDecoration of the named decoration, or of the
//	         empty decoration for an unknown name), else by name (SetDecorationNamed) - and renders: what it gives
//	         depends on the decoration selected last, not on what was selected before
//	realign  change what a column (I; 0 = the defaults column) says for alignment (Key: 0 remove, 1 left, 2 right,
//	         3 centre): from then on that is part of the content (fresh references are built with it)
//	faulty   render in Style into a writer that fails at write FaultK in mode FaultMode (the render must fail);
//	         the wrapper (reused or fresh) and the table must be none the worse for it
type Act struct {
	K         string  `json:"k"`
	Style     string  `json:"style,omitempty"`
	Reuse     bool    `json:"reuse,omitempty"`
	Owner     string  `json:"owner,omitempty"` // table | column | row | cell | hdr
	I         int     `json:"i,omitempty"`
	J         int     `json:"j,omitempty"`
	Key       int     `json:"key,omitempty"`
	Op        *gen.Op `json:"op,omitempty"`
	FaultK    int     `json:"fault_k,omitempty"`
	FaultMode string  `json:"fault_mode,omitempty"` // from | once | partial
}

// UnknownStyles name nothing: rendering in them fails every time, and that too leaves the table as it was.
var UnknownStyles = []string{"no-such-style", "texttable.nope", "", "utf8-lihgt", "texttable."}

// TextStyles are the registered decorations.
var TextStyles = Styles[4:]

var errFault = errors.New("injected write failure")

type faultWriter struct {
	k     int
	mode  string
	calls int
}

func (w *faultWriter) Write(p []byte) (int, error) {
	i := w.calls
	w.calls++
	switch {
	case w.mode == "from" && i >= w.k, w.mode == "once" && i == w.k:
		return 0, errFault
	case w.mode == "partial" && i == w.k:
		return len(p) / 2, errFault
	}
	return len(p), nil
}

type Case struct {
	Script gen.Script `json:"script"`
	Align  []int      `json:"align,omitempty"`
	Skip   []int      `json:"skip,omitempty"`
	Acts   []Act      `json:"acts"`
}

type userKey int

func settings(t tabular.Table, c Case) {
	n := t.NColumns()
	for i := 0; i <= n && i < len(c.Align); i++ {
		if v := tc.AlignValue(c.Align[i]); v != nil {
			t.Column(i).SetProperty(align.PropertyType, v)
		}
	}
	for i := 0; i <= n && i < len(c.Skip); i++ {
		switch c.Skip[i] {
		case 1:
			t.Column(i).SetProperty(properties.Skipable, true)
		case 2:
			t.Column(i).SetProperty(properties.Skipable, false)
		}
	}
}

type propRef struct {
	owner string
	i, j  int
	key   userKey
}

type world struct {
	cols  [][2]interface{} // what each column (0 = defaults) says for alignment and skipable, as the settings left it
	t     tabular.Table
	m     *gen.Model
	props map[propRef]int
	errs0 []error
	nrows int
	ncols int
}

func mod(a, n int) int { return ((a % n) + n) % n }

func (w *world) owner(o string, i, j int) (tabular.PropertyOwner, propRef, bool) {
	switch o {
	case "table":
		return w.t, propRef{owner: "table"}, true
	case "column":
		n := mod(i, w.ncols+1)
		return w.t.Column(n), propRef{owner: "column", i: n}, true
	case "row":
		if len(w.m.Rows) == 0 {
			return nil, propRef{}, false
		}
		n := mod(i, len(w.m.Rows))
		return w.m.Rows[n].Real, propRef{owner: "row", i: n}, true
	case "cell":
		var cand []int
		for k, r := range w.m.Rows {
			if len(r.Cells) > 0 {
				cand = append(cand, k)
			}
		}
		if len(cand) == 0 {
			return nil, propRef{}, false
		}
		n := cand[mod(i, len(cand))]
		jj := mod(j, len(w.m.Rows[n].Cells))
		cell, err := w.t.CellAt(tabular.CellLocation{Row: n + 1, Column: jj + 1})
		if err != nil {
			return nil, propRef{}, false
		}
		return cell, propRef{owner: "cell", i: n, j: jj}, true
	case "hdr":
		hs := w.t.Headers()
		if len(hs) == 0 {
			return nil, propRef{}, false
		}
		jj := mod(j, len(hs))
		return &hs[jj], propRef{owner: "hdr", j: jj}, true
	}
	return nil, propRef{}, false
}

// abs resolves an absolute property reference (as stored in the model).
func (w *world) abs(ref propRef) (tabular.PropertyOwner, bool) {
	switch ref.owner {
	case "table":
		return w.t, true
	case "column":
		return w.t.Column(ref.i), true
	case "row":
		return w.t.AllRows()[ref.i], true
	case "cell":
		cell, err := w.t.CellAt(tabular.CellLocation{Row: ref.i + 1, Column: ref.j + 1})
		return cell, err == nil
	case "hdr":
		hs := w.t.Headers()
		if ref.j >= len(hs) {
			return nil, false
		}
		return &hs[ref.j], true
	}
	return nil, false
}

// snapshot compares the whole observable state with the model.
func (w *world) snapshot(when string) *ev.Violation {
	t, m := w.t, w.m
	if t.NRows() != w.nrows || t.NColumns() != w.ncols {
		return ev.V("%s: table is now %d rows x %d columns, was %d x %d", when, t.NRows(), t.NColumns(), w.nrows, w.ncols)
	}
	rows := t.AllRows()
	for i, mr := range m.Rows {
		r := rows[i]
		if r != mr.Real || r.IsSeparator() != mr.Sep || r.Location() != (tabular.CellLocation{Row: i + 1}) {
			return ev.V("%s: row %d changed (identity, separator flag or location)", when, i+1)
		}
		cells := r.Cells()
		if len(cells) != len(mr.Cells) {
			return ev.V("%s: row %d now has %d cells, was %d", when, i+1, len(cells), len(mr.Cells))
		}
		for j := range cells {
			if cells[j].String() != mr.Cells[j].Text {
				return ev.V("%s: cell (%d,%d) text is now %q, was %q", when, i+1, j+1, cells[j].String(), mr.Cells[j].Text)
			}
			if cells[j].Location() != (tabular.CellLocation{Row: i + 1, Column: j + 1}) {
				return ev.V("%s: cell (%d,%d) now reports location %v", when, i+1, j+1, cells[j].Location())
			}
			if !gen.SameItem(mr.Cells[j].Live.V, cells[j].Item()) {
				return ev.V("%s: cell (%d,%d) no longer holds its original item", when, i+1, j+1)
			}
		}
	}
	hs := t.Headers()
	if (hs == nil) != !m.HeaderSet || len(hs) != len(m.Header) {
		return ev.V("%s: headers changed: %d cells, were %d (set=%v)", when, len(hs), len(m.Header), m.HeaderSet)
	}
	for j := range hs {
		if hs[j].String() != m.Header[j].Text {
			return ev.V("%s: header %d text is now %q, was %q", when, j+1, hs[j].String(), m.Header[j].Text)
		}
	}
	es := t.Errors()
	if len(es) != len(w.errs0) {
		return ev.V("%s: the error list now has %d entries, had %d before the first render: %v", when, len(es), len(w.errs0), es)
	}
	for i := range es {
		if es[i] != w.errs0[i] {
			return ev.V("%s: error list entry %d changed", when, i)
		}
	}
	if (es == nil) != (w.errs0 == nil) {
		return ev.V("%s: error list nil-ness changed", when)
	}
	for i, want := range w.cols {
		if i > w.t.NColumns() {
			break
		}
		col := w.t.Column(i)
		if got := col.GetProperty(align.PropertyType); got != want[0] {
			return ev.V("%s: column %d now reports alignment %v, it was left at %v", when, i, got, want[0])
		}
		if got := col.GetProperty(properties.Skipable); got != want[1] {
			return ev.V("%s: column %d now reports skipable %v, it was left at %v", when, i, got, want[1])
		}
	}
	for ref, want := range w.props {
		po, ok := w.abs(ref)
		if !ok {
			return ev.V("%s: owner %v of a user property can no longer be addressed", when, ref)
		}
		if got := po.GetProperty(ref.key); got != want {
			return ev.V("%s: user property %v on %s[%d,%d] reads %v, was set to %v", when, ref.key, ref.owner, ref.i, ref.j, got, want)
		}
	}
	return nil
}

// recordCols notes what every column says for the two well-known keys.
func (w *world) recordCols() {
	w.cols = w.cols[:0]
	for i := 0; i <= w.t.NColumns(); i++ {
		col := w.t.Column(i)
		w.cols = append(w.cols, [2]interface{}{col.GetProperty(align.PropertyType), col.GetProperty(properties.Skipable)})
	}
}

var siblingOnce sync.Once

// sharedTemplateName: every HTML wrapper of this process carries the same template name (a label without effect),
// and another table has been rendered under that name before: tables do not meet through a name.
const sharedTemplateName = "c14-shared"

var namings int

func named(rw auto.RenderTable) auto.RenderTable {
	if ht, ok := rw.(*html.HTMLTable); ok {
		// the name is a label: it changes from use to use, also on a wrapper that has rendered already
		namings++
		ht.TemplateName = sharedTemplateName + []string{"", "-b"}[namings%2]
	}
	return rw
}

func CheckCase(c Case) *ev.Violation {
	siblingOnce.Do(func() {
		sib := html.New()
		sib.TemplateName = sharedTemplateName
		sib.AddHeaders("sibling", "table")
		sib.AddRowItems("rendered", "first")
		sib.Render()
		sib2 := html.New()
		sib2.TemplateName = sharedTemplateName + "-b"
		sib2.AddRowItems("another")
		sib2.Render()
	})
	t, m := gen.Build(c.Script)
	settings(t, c)
	w := &world{t: t, m: m, props: map[propRef]int{}, nrows: t.NRows(), ncols: t.NColumns()}
	w.recordCols()
	w.errs0 = append([]error(nil), t.Errors()...)
	if t.Errors() == nil {
		w.errs0 = nil
	}
	gen.ScrambleRowsCopy(t) // what the table and its cells hand out (row list, line lists) is the caller's to overwrite
	if v := w.snapshot("before any render"); v != nil {
		return ev.V("harness model disagrees with the freshly built table: %s", v.Msg)
	}
	// fresh-replica references: the same content on a brand-new table rendered exactly once in that style only
	type ref struct {
		out string
		err error
	}
	refs := map[string]ref{}
	var extra []gen.Op // mutations applied so far: part of the content from then on
	type realign struct{ col, val int }
	var realigns []realign // alignment changes applied so far, in order
	reference := func(style string) ref {
		if r, ok := refs[style]; ok {
			return r
		}
		rt, _ := gen.Build(gen.Script{Ops: append(append([]gen.Op{}, c.Script.Ops...), extra...)})
		settings(rt, c)
		for _, ra := range realigns {
			if ra.col <= rt.NColumns() {
				rt.Column(ra.col).SetProperty(align.PropertyType, gen.AlignOf(ra.val))
			}
		}
		o, e := auto.Render(rt, style)
		refs[style] = ref{o, e}
		return refs[style]
	}
	long := map[string]auto.RenderTable{}
	var kept *texttable.TextTable
	var keptStyle string
	var keptKnown bool
	seq := 0
	for i, a := range c.Acts {
		switch a.K {
		case "setprop":
			po, ref, ok := w.owner(a.Owner, a.I, a.J)
			if !ok {
				continue
			}
			seq++
			ref.key = userKey(mod(a.Key, 4))
			po.SetProperty(ref.key, seq)
			w.props[ref] = seq
		case "mutate", "copycell":
			if a.Op == nil {
				continue
			}
			before := m.Noops
			m.Step(t, *a.Op)
			if m.Noops == before {
				extra = append(extra, *a.Op)
				refs = map[string]ref{}
				// the content changed on purpose: new baseline for the counts; settings reach new columns too
				settings(t, c)
				for _, ra := range realigns {
					if ra.col <= t.NColumns() {
						t.Column(ra.col).SetProperty(align.PropertyType, gen.AlignOf(ra.val))
					}
				}
				w.recordCols()
				w.nrows = len(m.Rows)
				if m.MaxEver > w.ncols {
					w.ncols = m.MaxEver
				}
			}
		case "realign":
			col := mod(a.I, w.ncols+1)
			val := mod(a.Key, 4)
			t.Column(col).SetProperty(align.PropertyType, gen.AlignOf(val))
			realigns = append(realigns, realign{col, val})
			refs = map[string]ref{}
			w.recordCols()
		case "restyle":
			if kept == nil {
				kept = texttable.Wrap(t)
				keptStyle, keptKnown = "utf8-heavy", true // the default decoration
			}
			known := false
			for _, s := range TextStyles {
				known = known || s == a.Style
			}
			// a.I odd: the selection is made on a by-value copy of the wrapper; the kept wrapper is none the wiser
			target := kept
			if a.I%2 == 1 {
				cp := *kept
				target = &cp
			}
			switch {
			case known && a.Reuse:
				target.SetDecoration(decoration.Named(a.Style))
			case known:
				target.SetDecorationNamed(a.Style)
			case a.Reuse:
				target.SetDecoration(decoration.EmptyDecoration)
			default:
				target.SetDecorationNamed(a.Style)
			}
			if target == kept {
				keptStyle, keptKnown = a.Style, known
			}
			type sel struct {
				w     *texttable.TextTable
				style string
				known bool
				what  string
			}
			for _, x := range []sel{{target, a.Style, known, "the wrapper just pointed at it"}, {kept, keptStyle, keptKnown, "the kept wrapper"}} {
				out, err := x.w.Render()
				if !x.known {
					if err == nil || out != "" {
						return ev.V("act %d: %s, last pointed at the unknown/empty decoration %q, rendered: err=%v output=%q", i+1, x.what, x.style, err, out)
					}
					continue
				}
				want := reference(x.style)
				if (err != nil) != (want.err != nil) || out != want.out {
					return ev.V("act %d: %s, last pointed at %s (this act: %s, by object: %v, on a by-value copy: %v), renders differently (err %v) from the same content rendered once in that style on a fresh table (err %v)\n--- got\n%s\n--- want\n%s", i+1, x.what, x.style, a.Style, a.Reuse, a.I%2 == 1, err, want.err, out, want.out)
				}
			}
		case "faulty":
			var rw auto.RenderTable
			if a.Reuse {
				if long[a.Style] == nil {
					long[a.Style] = named(auto.Wrap(t, a.Style))
				}
				rw = named(long[a.Style])
			} else {
				rw = named(auto.Wrap(t, a.Style))
			}
			fw := &faultWriter{k: a.FaultK, mode: a.FaultMode}
			err := rw.RenderTo(fw)
			if err == nil && fw.calls > a.FaultK && reference(a.Style).err == nil {
				return ev.V("act %d: write %d failed (%s) during a %s render but RenderTo returned nil", i+1, a.FaultK, a.FaultMode, a.Style)
			}
		case "render":
			var rw auto.RenderTable
			if a.Reuse {
				if long[a.Style] == nil {
					long[a.Style] = named(auto.Wrap(t, a.Style))
				}
				rw = named(long[a.Style])
			} else {
				rw = named(auto.Wrap(t, a.Style))
			}
			out, err := rw.Render()
			want := reference(a.Style)
			if (err != nil) != (want.err != nil) {
				return ev.V("act %d: render as %s gave error %v; the same content rendered once on a fresh table gives error %v", i+1, a.Style, err, want.err)
			}
			if out != want.out {
				return ev.V("act %d: render as %s (reused wrapper: %v) differs from the same content rendered once on a fresh table\n--- got\n%s\n--- want\n%s", i+1, a.Style, a.Reuse, out, want.out)
			}
		}
		if v := w.snapshot(fmt.Sprintf("after act %d (%s %s)", i+1, a.K, a.Style)); v != nil {
			return v
		}
	}
	return nil
}

func Classify(c Case) (bool, interface{}, []string) {
	var cl []string
	seen := map[string]bool{}
	add := func(s string) {
		if !seen[s] {
			seen[s] = true
			cl = append(cl, s)
		}
	}
	styles := map[string]int{}
	reused := false
	propsAfterRender := 0
	rendered := false
	for _, a := range c.Acts {
		switch a.K {
		case "render":
			styles[a.Style]++
			rendered = true
			if a.Reuse && styles[a.Style] > 1 {
				reused = true
			}
			add("style-" + a.Style)
		case "setprop":
			add("userprop-" + a.Owner)
			if rendered {
				propsAfterRender++
			}
		}
	}
	repeated := false
	for _, n := range styles {
		if n > 1 {
			repeated = true
		}
	}
	if propsAfterRender >= 2 {
		add("several-user-props-set-between-renders")
	}
	if reused {
		add("reused-wrapper")
	}
	_, m := gen.Build(c.Script)
	if m.SepAdd {
		add("table-has-errors")
	}
	return len(styles) >= 2 && repeated && reused, nil, cl
}
