package c14

import (
	"go.pennock.tech/tabular/auto"
	"go.pennock.tech/tabular/texttable"
	"go.pennock.tech/tabular/texttable/decoration"
	"os"
	"testing"

	"pgregory.net/rapid"

	"verif/harness/internal/ev"
	"verif/harness/internal/gen"
	"verif/harness/internal/h"
)

var prop = h.Prop[Case]{ID: ID, Check: CheckCase, Classify: Classify}

func TestMain(m *testing.M) { os.Exit(ev.Main(ID, m)) }

func TestReplay(t *testing.T) { prop.Replay(t, nil) }

// sizeItem: items whose declared size disagrees with the text (non-negative declarations).
func sizeItem() *rapid.Generator[gen.Item] {
	return rapid.Custom(func(t *rapid.T) gen.Item {
		it := gen.Item{K: "if", P: rapid.Bool().Draw(t, "ptr")}
		it.M = rapid.SampledFrom([]int{1, 2, 4, 5}).Draw(t, "text") | rapid.SampledFrom([]int{gen.MHeight, gen.MWidth, gen.MHeight | gen.MWidth}).Draw(t, "size")
		txt := gen.Str(gen.StringOf([]string{"a", "bc", "\n", "x\ny\nz", "q"}, 1, 3).Draw(t, "s"))
		it.S, it.G, it.E = txt, txt, txt
		it.H = rapid.IntRange(0, 4).Draw(t, "h")
		it.W = rapid.IntRange(0, 9).Draw(t, "w")
		return it
	})
}

func itemGen() *rapid.Generator[gen.Item] {
	anyItem := gen.AnyItem(gen.TokWidth, 1)
	str := gen.StrItem(gen.TokWidth, 3)
	sz := sizeItem()
	return rapid.Custom(func(t *rapid.T) gen.Item {
		switch rapid.IntRange(0, 5).Draw(t, "mix") {
		case 0:
			return gen.NoAddressText(anyItem.Draw(t, "any"))
		case 1:
			return sz.Draw(t, "size")
		}
		return str.Draw(t, "str")
	})
}

func caseGen() *rapid.Generator[Case] {
	max := 8
	if h.Thorough() {
		max = 14
	}
	key := rapid.Custom(func(t *rapid.T) gen.Item {
		return gen.S(gen.StringOf([]string{"k", "h1", "h2", "h3", "name", "x y"}, 1, 2).Draw(t, "key"))
	})
	sg := gen.ScriptGen(gen.ScriptOpts{AllowProps: true, AllowRowErr: true, Item: itemGen(), HdrItem: key, MinOps: 1, MaxOps: max, MaxCells: 3, HdrCells: [2]int{1, 5}, ForceHdr: true, AllowMutate: true, AllowCopy: true,
		Creators: []string{"core", "core", "csv", "texttable", "markdown", "json", "html"}})
	return rapid.Custom(func(t *rapid.T) Case {
		c := Case{Script: sg.Draw(t, "script")}
		c.Align = rapid.SliceOfN(rapid.IntRange(0, 3), 0, 5).Draw(t, "align")
		c.Skip = rapid.SliceOfN(rapid.IntRange(0, 2), 0, 5).Draw(t, "skip")
		n := rapid.IntRange(2, 12).Draw(t, "acts")
		// a small palette of styles per case so that formats repeat
		palette := rapid.SliceOfN(rapid.SampledFrom(Styles), 1, 3).Draw(t, "palette")
		for i := 0; i < n; i++ {
			kind := rapid.IntRange(0, 14).Draw(t, "kind")
			if kind >= 13 {
				kind = 9 // content changes between renders (mutate + Update) are the commonest reason for stale state
			}
			if kind == 12 {
				c.Acts = append(c.Acts, Act{K: "realign", I: rapid.IntRange(0, 3).Draw(t, "col"), Key: rapid.IntRange(0, 3).Draw(t, "align")})
			} else if kind == 10 {
				c.Acts = append(c.Acts, Act{K: "restyle", Style: rapid.SampledFrom(append(append([]string{}, TextStyles...), "nope", "utf8-lihgt")).Draw(t, "restyle"), Reuse: rapid.Bool().Draw(t, "by-object"), I: rapid.SampledFrom([]int{0, 0, 1}).Draw(t, "on-copy")})
			} else if kind == 11 {
				// a style that names nothing: the render fails, every time the same way, and changes nothing
				c.Acts = append(c.Acts, Act{K: "render", Style: rapid.SampledFrom(UnknownStyles).Draw(t, "unknown-style"), Reuse: rapid.Bool().Draw(t, "reuse")})
			} else if kind == 9 {
				to := itemGen().Draw(t, "to")
				c.Acts = append(c.Acts, Act{K: "mutate", Op: &gen.Op{K: "mutate", Ref: rapid.IntRange(0, 5).Draw(t, "ref"), Cap: rapid.IntRange(0, 3).Draw(t, "cell"),
					Items: []gen.Item{{K: "str", S: to.S, G: to.G, E: to.E, N: to.N}}}})
			} else if kind == 7 {
				c.Acts = append(c.Acts, Act{K: "copycell", Op: &gen.Op{K: "copycell", Ref: rapid.IntRange(0, 5).Draw(t, "ref"), Cap: rapid.IntRange(0, 3).Draw(t, "cell"), To: rapid.IntRange(0, 5).Draw(t, "to")}})
			} else if kind == 8 {
				c.Acts = append(c.Acts, Act{K: "faulty", Style: rapid.SampledFrom(palette).Draw(t, "style"), Reuse: rapid.Bool().Draw(t, "reuse"),
					FaultK: rapid.IntRange(0, 12).Draw(t, "k"), FaultMode: rapid.SampledFrom([]string{"from", "once", "partial"}).Draw(t, "mode")})
			} else if kind < 2 {
				c.Acts = append(c.Acts, Act{K: "setprop", Owner: rapid.SampledFrom([]string{"table", "column", "row", "cell", "cell", "cell", "hdr"}).Draw(t, "owner"),
					I: rapid.IntRange(0, 3).Draw(t, "i"), J: rapid.IntRange(0, 2).Draw(t, "j"), Key: rapid.IntRange(0, 3).Draw(t, "key")})
			} else {
				c.Acts = append(c.Acts, Act{K: "render", Style: rapid.SampledFrom(palette).Draw(t, "style"), Reuse: rapid.Bool().Draw(t, "reuse")})
			}
		}
		return c
	})
}

func TestProp(t *testing.T) { prop.Rapid(t, caseGen()) }

// TestDefault: a table rendered with the text renderer's default decoration renders the same bytes again after the
// application has registered decorations of its own under stock names in between (new wrappers each time, and one
// kept wrapper): what the default looks like was settled with the first render.  Own process: the registry is global.
func TestDefault(t *testing.T) {
	s := gen.S
	tables := [][]gen.Op{
		{{K: "hdr", Items: []gen.Item{s("k"), s("value")}}, {K: "rowitems", Items: []gen.Item{s("a"), s("b\nc")}}, {K: "sep"}, {K: "rowitems", Items: []gen.Item{s("wide cell")}}},
		{{K: "rowitems", Items: []gen.Item{s("no"), s("header")}}},
	}
	var n int64
	for _, ops := range tables {
		tb, _ := gen.Build(gen.Script{Ops: ops})
		kept := texttable.Wrap(tb)
		first, err := texttable.Render(tb)
		keptFirst, _ := kept.Render()
		viaAuto, _ := auto.Render(tb, "texttable")
		if err != nil || first != keptFirst || first != viaAuto {
			ev.R().Fail(ID, Case{Script: gen.Script{Ops: ops}}, ev.V("the default decoration renders differently through texttable.Render, a kept wrapper and auto \"texttable\""))
			t.Fatalf("VIOLATION %s", ID)
		}
		for _, stock := range []string{decoration.D_UTF8_HEAVY, decoration.D_UTF8_LIGHT, decoration.D_NONE, decoration.D_ASCII_SIMPLE} {
			old := decoration.Named(stock)
			decoration.RegisterDecorationName(stock, decoration.UTF8BoxDouble())
			again, _ := texttable.Render(tb)
			keptAgain, _ := kept.Render()
			autoAgain, _ := auto.Render(tb, "texttable")
			decoration.RegisterDecorationName(stock, old)
			n++
			ev.R().EvalEnum(nil, true)
			if again != first || keptAgain != first || autoAgain != first {
				ev.R().Fail(ID, Case{Script: gen.Script{Ops: ops}}, ev.V("after the application registered another decoration under the stock name %q, the same table rendered with the DEFAULT decoration no longer gives the bytes of the first time\n--- now\n%s\n--- first\n%s", stock, again, first))
				t.Fatalf("VIOLATION %s", ID)
			}
		}
	}
	ev.R().Sub(ev.SubRun{Name: "default-decoration", Bound: "2 tables x 4 stock names re-registered x {texttable.Render, kept wrapper, auto texttable}", Cases: n, Exhaustive: true})
}
