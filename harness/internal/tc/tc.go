// Package tc is the text-table case shared by C03 and C04: a build history,
// a decoration and an alignment assignment, checked against the reference
// text renderer.
package tc

import (
	"fmt"
	"reflect"
	"strings"

	"go.pennock.tech/tabular"
	"go.pennock.tech/tabular/auto"
	"go.pennock.tech/tabular/length"
	"go.pennock.tech/tabular/properties/align"
	"go.pennock.tech/tabular/texttable"

	"verif/harness/internal/ev"
	"verif/harness/internal/gen"
	"verif/harness/internal/oracle"
)

type Case struct {
	Script gen.Script   `json:"script"`
	Deco   gen.DecoSpec `json:"deco"`
	Align  []int        `json:"align,omitempty"` // [0] = column 0 (default), [i] = column i; 0 unset 1 left 2 right 3 centre
	// Also: other renderers wrapped around the same table after the text wrapper exists ("markdown", "csv", "json",
	// "html", "texttable"; a trailing "!" = also render once through it).  Renders: how often the text wrapper renders (>= 1).
	Also    []string `json:"also,omitempty"`
	Renders int      `json:"renders,omitempty"`
	// Pre > 0: the text wrapper is created and rendered once after Pre-1 operations, while the table is still
	// incomplete; the final renders go through that same wrapper.
	Pre int `json:"pre,omitempty"`
	// AlignByCallback: the alignments are not set directly but by a pre-cell render callback on the table itself
	// (a callback is handed the live table; what it sets is what the columns ask for in that very pass).
	AlignByCallback bool `json:"align_by_callback,omitempty"`
	// Bulk: that many plain one-cell rows are added before the history (big tables: the history's rows come last)
	Bulk int `json:"bulk,omitempty"`
	// Props: a property history on the columns after Align (several keys per column, re-set and removed); not
	// combined with AlignByCallback
	Props []gen.PropOp `json:"props,omitempty"`
	// AppCB: an application's own render-time cell callback is registered on the table right after it is created,
	// before any text wrapper exists (1: it reports an error for some cells, 2: it never fails): nothing to the renderer
	AppCB int `json:"appcb,omitempty"`
	// LateText: the items of the first cell of every body row change once the table is built, and the cells are
	// brought up to date not by the caller but by a pre-cell render callback owned by column 1 that calls
	// Cell.Update() - the slot the documentation names for work "before dimensions are locked down"
	LateText bool `json:"late_text,omitempty"`
}

// updater brings the cell it is handed up to date.
type updater struct{}

func (updater) UpdateProperties(po tabular.PropertyOwner) error {
	if cell, ok := po.(*tabular.Cell); ok {
		cell.Update()
	}
	return nil
}

type alignSetter struct {
	t  tabular.Table
	al []int
}

func (a alignSetter) UpdateProperties(tabular.PropertyOwner) error {
	n := a.t.NColumns()
	for i := 0; i <= n && i < len(a.al); i++ {
		if v := AlignValue(a.al[i]); v != nil {
			a.t.Column(i).SetProperty(align.PropertyType, v)
		}
	}
	return nil
}

func AlignValue(a int) align.Alignment {
	switch a {
	case oracle.ALeft:
		return align.Left
	case oracle.ARight:
		return align.Right
	case oracle.ACenter:
		return align.Center
	}
	return nil
}

// Prepared is a built case.
type Prepared struct {
	TT    *texttable.TextTable
	Model *gen.Model
	Spec  oracle.TSpec
	InDom bool // at least one column, and the column count is unambiguous
	// BadNCols is set (to the reported value) when NColumns() disagrees with the build history.
	BadNCols int
	// BadDeco: Populate did not complete the custom decoration properly
	BadDeco string
	// Unspecified: a width-declaring item without exactly one text line (possible after a mutation)
	Unspecified bool
}

func Prepare(c Case) Prepared {
	t := gen.NewTable(c.Script.Creator)
	gen.RegisterApp(t, c.AppCB)
	m := &gen.Model{}
	var early *texttable.TextTable
	for i := 0; i < c.Bulk; i++ {
		m.Step(t, gen.Op{K: "rowitems", Items: []gen.Item{gen.S("r")}})
	}
	for i, op := range c.Script.Ops {
		if c.Pre > 0 && i == c.Pre-1 {
			early = texttable.Wrap(t)
			early.Render()
		}
		m.Step(t, op)
	}
	p := Prepared{Model: m}
	n := m.NCols()
	if n == 0 || n != m.MaxEver {
		return p
	}
	if t.NColumns() != n {
		p.BadNCols = t.NColumns()
		return p
	}
	p.InDom = true
	if c.LateText {
		done := map[*gen.Live]bool{} // by-value copies of a cell share their item: it changes once
		for _, r := range m.Rows {
			if r.Sep || r.NilCells || len(r.Cells) == 0 {
				continue
			}
			mc := &r.Cells[0]
			if mc.It.K != "if" && mc.It.K != "ifp" {
				continue
			}
			to := gen.Item{K: "str", S: gen.Str(mc.Live.St.S + "!"), G: gen.Str(mc.Live.St.G + "!"), E: gen.Str(mc.Live.St.E + "!\nlate")}
			if done[mc.Live] || gen.Mutate(mc.Live, mc.It, to) {
				done[mc.Live] = true
				mc.Text = gen.TextForm(mc.It, mc.Live) // what the cell will say once the callback has updated it
			}
		}
		t.RegisterPropertyCallback(t.Column(1), tabular.CB_AT_RENDER_PRECELL, tabular.CB_ON_CELL, updater{})
	}
	al := make([]int, n+1)
	for i := range al {
		al[i] = m.AlignCode[i] // what property steps in between the build steps left behind
	}
	for i := 0; i <= n && i < len(c.Align); i++ {
		if v := AlignValue(c.Align[i]); v != nil {
			al[i] = c.Align[i]
			if !c.AlignByCallback {
				t.Column(i).SetProperty(align.PropertyType, v)
			}
		}
	}
	if !c.AlignByCallback {
		gen.ApplyProps(t, c.Props, n, al, nil)
	}
	if c.AlignByCallback && early == nil {
		t.RegisterPropertyCallback(t, tabular.CB_AT_RENDER_PRECELL, tabular.CB_ON_ITSELF, alignSetter{t, al})
	} else if c.AlignByCallback {
		// the wrapper has rendered already: set directly
		for i := 0; i <= n; i++ {
			if v := AlignValue(al[i]); v != nil {
				t.Column(i).SetProperty(align.PropertyType, v)
			}
		}
	}
	deco, boxless := c.Deco.Make()
	if c.Deco.Custom != nil {
		// "a custom one after its defaults are filled in": what the user set stays, everything else gets a glyph
		v := reflect.ValueOf(deco)
		for _, f := range gen.DecoFields {
			got := v.FieldByName(f).String()
			if want, set := c.Deco.Custom[f]; set && got != want {
				p.BadDeco = fmt.Sprintf("Populate changed the field %s the caller had set to %q into %q", f, want, got)
			} else if got == "" {
				p.BadDeco = fmt.Sprintf("Populate left the field %s empty", f)
			}
		}
	}
	if early != nil {
		p.TT = early
	} else {
		p.TT = texttable.Wrap(t)
	}
	if c.Deco.Custom == nil && !c.Deco.ByCtor && c.Deco.Name != "" {
		p.TT.SetDecorationNamed(c.Deco.Name)
	} else if !(c.Deco.Custom == nil && c.Deco.Name == "") {
		p.TT.SetDecoration(deco)
	}
	p.Spec = oracle.SpecOf(m, al, deco, boxless)
	// the statement covers width-declaring items with exactly one text line only; a mutation may have left such an
	// item with no line or several: what that does to the column is unspecified, so the case is out of domain
	chk := func(cells []oracle.TCell) {
		for _, cl := range cells {
			if cl.DeclW >= 0 && len(cl.Lines) != 1 {
				p.InDom = false
				p.Unspecified = true
			}
		}
	}
	chk(p.Spec.Header)
	for _, r := range p.Spec.Rows {
		chk(r.Cells)
	}
	return p
}

// Check renders the case and compares it with the reference renderer.
func Check(c Case) *ev.Violation {
	p := Prepare(c)
	if p.BadDeco != "" {
		return ev.V("%s", p.BadDeco)
	}
	if !p.InDom {
		if p.Unspecified {
			return nil
		}
		if p.Model.NCols() > 0 && p.Model.NCols() == p.Model.MaxEver {
			return ev.V("NColumns()=%d but the build history has %d columns", p.BadNCols, p.Model.NCols())
		}
		return nil
	}
	gen.ScrambleRowsCopy(p.TT)
	for _, k := range c.Also {
		render := strings.HasSuffix(k, "!")
		w := auto.Wrap(p.TT.Table, strings.TrimSuffix(k, "!"))
		if render {
			w.Render()
		}
	}
	want := oracle.RenderText(p.Spec)
	renders := c.Renders
	if renders < 1 {
		renders = 1
	}
	var out string
	for i := 0; i < renders; i++ {
		var err error
		out, err = p.TT.Render()
		if err != nil {
			return ev.V("text render %d failed: %v", i+1, err)
		}
		if out != want {
			return ev.V("rendered table (render %d of %d, other wrappers on the table: %v) differs from the reference rendering: %s\n--- got\n%s--- want\n%s", i+1, renders, c.Also, firstDiff(out, want), out, want)
		}
	}
	// Independent of the reference renderer: every line has the same display
	// width by the library's own measure (only where that measure is additive
	// and no item under-declares its size).
	if !p.Spec.HasOverride() && p.Spec.Additive() {
		lines := strings.Split(strings.TrimSuffix(out, "\n"), "\n")
		if out == "" {
			lines = nil
		}
		for i, l := range lines {
			if length.StringCells(l) != length.StringCells(lines[0]) {
				return ev.V("line %d is %d cells wide, line 0 is %d\n%s", i, length.StringCells(l), length.StringCells(lines[0]), out)
			}
		}
	}
	return nil
}

func firstDiff(a, b string) string {
	la, lb := strings.Split(a, "\n"), strings.Split(b, "\n")
	for i := 0; i < len(la) || i < len(lb); i++ {
		var x, y string
		if i < len(la) {
			x = la[i]
		}
		if i < len(lb) {
			y = lb[i]
		}
		if x != y {
			return fmt.Sprintf("line %d: got %q want %q (%d vs %d lines)", i, x, y, len(la)-1, len(lb)-1)
		}
	}
	return "same"
}

// Facts collects the labels both properties use for classification.
type Facts struct {
	MultiLine, Wide, Ragged, ZeroCell, HdrNarrower, Custom, Sep, Override, WOverride, HOverride, LateAdd bool
	InheritedAlign, OddCentre                                                                            bool
	Classes                                                                                              []string
}

func Describe(c Case) Facts {
	p := Prepare(c)
	var f Facts
	m := p.Model
	f.Ragged, f.ZeroCell, f.Sep, f.LateAdd = m.Ragged, m.ZeroCellRow || m.ZeroCellHdr, m.HasSep, m.LateAdd
	f.Custom = c.Deco.Custom != nil
	seen := map[string]bool{}
	cl := func(s string) {
		if !seen[s] {
			seen[s] = true
			f.Classes = append(f.Classes, s)
		}
	}
	if !p.InDom {
		if p.Unspecified {
			cl("out-of-domain-width-declaring-item-not-single-line")
		} else {
			cl("out-of-domain-no-columns")
		}
		return f
	}
	cl("deco-" + c.Deco.Label())
	if len(c.Also) > 0 {
		cl("other-wrappers-on-the-table")
	}
	if !c.AlignByCallback && gen.PropHistDepth(c.Props, p.Model.NCols()) >= 3 {
		cl("column-carries-3-or-more-keys")
	}
	if c.Renders > 1 {
		cl("rendered-more-than-once")
	}
	if c.Pre > 0 && c.Pre <= len(c.Script.Ops) {
		cl("rendered-while-incomplete")
	}
	if m.Mutated {
		cl("item-mutated-and-updated")
	}
	if c.Bulk > 0 {
		cl("more-than-a-thousand-rows")
	}
	all := func(fn func(gen.MCell)) {
		for _, x := range m.Header {
			fn(x)
		}
		for _, r := range m.Rows {
			for _, x := range r.Cells {
				fn(x)
			}
		}
	}
	all(func(x gen.MCell) {
		if strings.Contains(x.Text, "\n") {
			f.MultiLine = true
		}
		for _, k := range gen.ClassOf(x.Text) {
			if k == "wide" || k == "zwj" || k == "nonascii" {
				f.Wide = true
			}
			cl("text-" + k)
		}
		if _, ok := x.It.DeclaredWidth(); ok {
			f.WOverride = true
		}
		if _, ok := x.It.DeclaredHeight(); ok {
			f.HOverride = true
		}
	})
	f.Override = f.WOverride || f.HOverride
	if m.HeaderSet {
		ws := p.Spec.ColWidths()
		hw := oracle.TSpec{NCols: p.Spec.NCols, HeaderSet: true, Header: p.Spec.Header}.ColWidths()
		for i := range ws {
			if hw[i] < ws[i] {
				f.HdrNarrower = true
			}
		}
	}
	// alignment facts
	ws := p.Spec.ColWidths()
	for i := 1; i <= p.Spec.NCols; i++ {
		own := oracle.AUnset
		if i < len(p.Spec.Align) {
			own = p.Spec.Align[i]
		}
		if own == oracle.AUnset && len(p.Spec.Align) > 0 && p.Spec.Align[0] != oracle.AUnset {
			f.InheritedAlign = true
		}
		if p.Spec.EffAlign(i) == oracle.ACenter {
			chk := func(cells []oracle.TCell) {
				if i-1 < len(cells) {
					for _, l := range cells[i-1].Lines {
						if (ws[i-1]-length.StringCells(l))%2 == 1 {
							f.OddCentre = true
						}
					}
				}
			}
			chk(p.Spec.Header)
			for _, r := range p.Spec.Rows {
				chk(r.Cells)
			}
		}
	}
	for k, v := range map[string]bool{"multi-line": f.MultiLine, "ragged": f.Ragged, "zero-cell": f.ZeroCell, "separator": f.Sep, "header-narrower": f.HdrNarrower,
		"late-add": f.LateAdd, "width-override": f.WOverride, "height-override": f.HOverride, "inherited-align": f.InheritedAlign, "odd-centre-pad": f.OddCentre,
		"header": m.HeaderSet, "additive": p.Spec.Additive()} {
		if v {
			cl(k)
		}
	}
	return f
}
