package gen

import (
	"fmt"

	"go.pennock.tech/tabular"
	"go.pennock.tech/tabular/auto"
	"go.pennock.tech/tabular/csv"
	"go.pennock.tech/tabular/html"
	"go.pennock.tech/tabular/json"
	"go.pennock.tech/tabular/markdown"
	"go.pennock.tech/tabular/texttable"
)

// Op is one table-building operation.
//
//	hdr         AddHeaders(Items...)
//	rowitems    AddRowItems(Items...)
//	newrow      tabular.NewRow()                      (pending row)
//	newrowcap   tabular.NewRowWithCapacity(Cap)       (pending row)
//	newrowsized t.NewRowSizedFor()                    (pending row)
//	rowadd      <row Ref of all rows created so far>.Add(NewCell(item)) for each of Items
//	addrow      t.AddRow(<pending row Ref>)
//	sep         AddSeparator()
//	appendnew   t.AppendNewRow()
//	readd       t.AddRow(<an already attached cell row Ref>) again: the row is listed twice (only generated where asked for)
//	copycell    add a by-value copy of cell Cap of row Ref (a Cell value, cached text, properties and item pointer
//	            included) to row To: two cells now share one item, each keeps its own snapshot of the text
//	newrowother a pending row made by ANOTHER table's NewRowSizedFor (that table is Cap columns wide)
//	mutate      change the (mutable) item of cell Cap of row Ref behind the cell's back, then call Cell.Update()
//	            (Items[0] carries the new S/G/E/N); a no-op if that cell's item cannot be mutated
//	prop        one step of a property history on a column (P; the column is P.Col modulo the columns the table has
//	            at that moment, plus column 0): what the columns ask for when rendered is the last setting, whenever it was made
//	rowerr      <row Ref of all rows created so far>.AddError(...): the application notes a problem of its own on a row,
//	            pending or attached (only generated where asked for)
//	newrowzero  new(tabular.Row) kept pending (a zero-value row: refuses cells; addrow attaches it)
//	foreigncell a by-value copy of a cell that was built and rendered (text, markdown) in ANOTHER table, added as the
//	            only cell of a new row (only generated where asked for)
//	zerorow     t.AddRow(new(tabular.Row))            (a zero-value row: not a separator, holds no cells, refuses Add)
//
// Ref is taken modulo the number of candidate rows; an operation without a
// candidate is a counted no-op.
type Op struct {
	K     string  `json:"k"`
	Items []Item  `json:"items,omitempty"`
	Ref   int     `json:"ref,omitempty"`
	Cap   int     `json:"cap,omitempty"`
	To    int     `json:"to,omitempty"`
	P     *PropOp `json:"p,omitempty"`
}

// Script is a build history plus the way the table was created.
type Script struct {
	Creator string `json:"creator,omitempty"` // "" or core, csv, html, json, markdown, texttable, auto:<style>
	Ops     []Op   `json:"ops"`
}

// NewTable creates the table through the named creation path.
func NewTable(creator string) tabular.Table {
	switch creator {
	case "", "core":
		return tabular.New()
	case "csv":
		return csv.New()
	case "html":
		return html.New()
	case "json":
		return json.New()
	case "markdown":
		return markdown.New()
	case "texttable":
		return texttable.New()
	}
	if len(creator) > 5 && creator[:5] == "auto:" {
		return auto.New(creator[5:])
	}
	panic("gen: unknown creator " + creator)
}

// MCell is the model of one cell.
type MCell struct {
	It   Item
	Live *Live
	Text string // expected text, from TextForm
}

// MRow is the model of one row (pending or attached).
type MRow struct {
	Sep      bool
	NilCells bool // zero-value row: Cells() is nil although it is not a separator
	Cells    []MCell
	Attached bool
	Pos      int // 1-based position once attached
	Real     *tabular.Row
	// LateAdds counts cells added after the row was attached.
	LateAdds int
}

// Model is the reference model of a table.
type Model struct {
	HeaderSet  bool
	Header     []MCell
	HeaderSets int
	Rows       []*MRow // attached, in order
	All        []*MRow // every row object ever created, in creation order
	MaxEver    int     // historical maximum of header/row cell counts (of attached things)
	Noops      int
	// Facts for the non-trivial rules.
	// AlignCode / SkipCode: what the property history so far leaves on each column (0 or absent: unset)
	AlignCode, SkipCode                                                                               map[int]int
	PropOps, UserErrs                                                                                 int
	LateAdd, HdrAfterRows, ZeroCellRow, ZeroCellHdr, HasSep, Ragged, SepAdd, ReAdded, Mutated, Copied bool
}

// NCols is the column count by the statement: the largest number of cells in
// the (current) header or in any attached row.
func (m *Model) NCols() int {
	n := 0
	if m.HeaderSet && len(m.Header) > n {
		n = len(m.Header)
	}
	for _, r := range m.Rows {
		if len(r.Cells) > n {
			n = len(r.Cells)
		}
	}
	return n
}

// DataRows returns the attached non-separator rows.
func (m *Model) DataRows() []*MRow {
	var out []*MRow
	for _, r := range m.Rows {
		if !r.Sep {
			out = append(out, r)
		}
	}
	return out
}

func mcell(it Item) MCell {
	l := Materialise(it)
	return MCell{It: it, Live: l, Text: TextForm(it, l)}
}

func (m *Model) pending() []*MRow {
	var out []*MRow
	for _, r := range m.All {
		if !r.Attached {
			out = append(out, r)
		}
	}
	return out
}

func (m *Model) noteAttached(r *MRow) {
	r.Attached = true
	m.Rows = append(m.Rows, r)
	r.Pos = len(m.Rows)
	if len(r.Cells) > m.MaxEver {
		m.MaxEver = len(r.Cells)
	}
}

// Step applies one operation to the real table and to the model.
func (m *Model) Step(t tabular.Table, op Op) {
	switch op.K {
	case "hdr":
		cells := make([]MCell, len(op.Items))
		items := make([]interface{}, len(op.Items))
		for i, it := range op.Items {
			cells[i] = mcell(it)
			items[i] = cells[i].Live.V
		}
		t.AddHeaders(items...)
		if len(m.Rows) > 0 {
			m.HdrAfterRows = true
		}
		if len(cells) == 0 {
			m.ZeroCellHdr = true
		}
		m.HeaderSet = true
		m.HeaderSets++
		m.Header = cells
		if len(cells) > m.MaxEver {
			m.MaxEver = len(cells)
		}
	case "rowitems":
		r := &MRow{}
		items := make([]interface{}, len(op.Items))
		for i, it := range op.Items {
			c := mcell(it)
			r.Cells = append(r.Cells, c)
			items[i] = c.Live.V
		}
		t.AddRowItems(items...)
		rows := t.AllRows()
		r.Real = rows[len(rows)-1]
		m.All = append(m.All, r)
		m.noteAttached(r)
		if len(r.Cells) == 0 {
			m.ZeroCellRow = true
		}
	case "newrow":
		m.All = append(m.All, &MRow{Real: tabular.NewRow()})
	case "newrowzero":
		m.All = append(m.All, &MRow{Real: new(tabular.Row), NilCells: true}) // a zero-value row, still pending: it refuses cells, it can be noted errors on, it can be added
	case "foreigncell":
		// a cell that has lived in ANOTHER table - built there, measured there by the text and the markdown
		// renderer - is copied by value into a new row of this one: what the other table's renderers left on it is
		// of no concern here
		if len(op.Items) == 0 {
			m.Noops++
			return
		}
		c := mcell(op.Items[0])
		other := texttable.New()
		other.AddRowItems(c.Live.V)
		other.Render()
		markdown.Wrap(other).Render()
		src, err := other.CellAt(tabular.CellLocation{Row: 1, Column: 1})
		if err != nil {
			m.Noops++
			return
		}
		r := &MRow{Real: tabular.NewRow(), Cells: []MCell{c}}
		r.Real.Add(*src)
		t.AddRow(r.Real)
		m.All = append(m.All, r)
		m.noteAttached(r)
		m.Copied = true
	case "newrowcap":
		c := op.Cap
		if c < 0 {
			c = 0
		}
		m.All = append(m.All, &MRow{Real: tabular.NewRowWithCapacity(c)})
	case "newrowsized":
		m.All = append(m.All, &MRow{Real: t.NewRowSizedFor()})
	case "appendnew":
		r := &MRow{Real: t.AppendNewRow()}
		m.All = append(m.All, r)
		m.noteAttached(r)
		m.ZeroCellRow = true
	case "newrowother":
		other := tabular.New()
		w := op.Cap
		if w < 0 {
			w = 0
		}
		items := make([]interface{}, w)
		for i := range items {
			items[i] = "o"
		}
		other.AddRowItems(items...)
		m.All = append(m.All, &MRow{Real: other.NewRowSizedFor()})
	case "copycell":
		var src, dst []*MRow
		for _, r := range m.All {
			if len(r.Cells) > 0 {
				src = append(src, r)
			}
			if !r.Sep && !r.NilCells {
				dst = append(dst, r)
			}
		}
		if len(src) == 0 || len(dst) == 0 {
			m.Noops++
			return
		}
		sr := src[mod(op.Ref, len(src))]
		j := mod(op.Cap, len(sr.Cells))
		if op.Ref%2 != 0 {
			// prefer a cell whose item can be mutated later (two cells then share one mutable item)
		search:
			for _, r := range src {
				for k := range r.Cells {
					switch r.Cells[k].It.K {
					case "if", "ifp", "psx", "ints":
						sr, j = r, k
						break search
					}
				}
			}
		}
		dr := dst[mod(op.To, len(dst))]
		cells := sr.Real.Cells()
		dr.Real.Add(cells[j])                    // by value
		dr.Cells = append(dr.Cells, sr.Cells[j]) // same item (same Live), own text snapshot
		if dr.Attached {
			dr.LateAdds++
			m.LateAdd = true
			if len(dr.Cells) > m.MaxEver {
				m.MaxEver = len(dr.Cells)
			}
		}
		m.Copied = true
	case "mutate":
		if len(op.Items) == 0 {
			m.Noops++
			return
		}
		// among the cells whose item can be mutated at all
		type at struct {
			r *MRow
			j int
		}
		var cand []at
		for _, r := range m.All {
			for j := range r.Cells {
				switch r.Cells[j].It.K {
				case "if", "ifp", "psx", "ints":
					cand = append(cand, at{r, j})
				}
			}
		}
		if m.HeaderSet {
			// the cells of the current header row are cells like any other (reached through Headers())
			for j := range m.Header {
				switch m.Header[j].It.K {
				case "if", "ifp", "psx", "ints":
					cand = append(cand, at{nil, j})
				}
			}
		}
		if len(cand) == 0 {
			m.Noops++
			return
		}
		pick := cand[mod(op.Ref*5+op.Cap, len(cand))]
		r, j := pick.r, pick.j
		if r == nil {
			mc := &m.Header[j]
			to := op.Items[0]
			if to.K == "keep" && mc.Live.St != nil {
				to.S, to.G, to.E = Str(mc.Live.St.S), Str(mc.Live.St.G), Str(mc.Live.St.E)
			}
			if !Mutate(mc.Live, mc.It, to) {
				m.Noops++
				return
			}
			if to.M != 0 && (mc.It.K == "if" || mc.It.K == "ifp") {
				mc.It.H, mc.It.W = to.H, to.W
			}
			hs := t.Headers()
			(&hs[j]).Update()
			mc.Text = TextForm(mc.It, mc.Live)
			m.Mutated = true
			return
		}
		mc := &r.Cells[j]
		to := op.Items[0]
		if to.K == "keep" && mc.Live.St != nil {
			to.S, to.G, to.E = Str(mc.Live.St.S), Str(mc.Live.St.G), Str(mc.Live.St.E)
		}
		if !Mutate(mc.Live, mc.It, to) {
			m.Noops++
			return
		}
		if to.M != 0 && (mc.It.K == "if" || mc.It.K == "ifp") {
			// the descriptor follows, so that the reference renderer sees the new declared sizes
			mc.It.H, mc.It.W = to.H, to.W
			for k := range r.Cells { // by-value copies share the item: their descriptors follow too
				if r.Cells[k].Live == mc.Live {
					r.Cells[k].It.H, r.Cells[k].It.W = to.H, to.W
				}
			}
		}
		cells := r.Real.Cells()
		(&cells[j]).Update()
		mc.Text = TextForm(mc.It, mc.Live)
		m.Mutated = true
	case "readd":
		var att []*MRow
		for _, r := range m.Rows {
			if !r.Sep && !r.NilCells {
				att = append(att, r)
			}
		}
		if len(att) == 0 {
			m.Noops++
			return
		}
		r := att[mod(op.Ref, len(att))]
		t.AddRow(r.Real)
		m.Rows = append(m.Rows, r)
		m.ReAdded = true
	case "prop":
		if op.P == nil {
			m.Noops++
			return
		}
		n := t.NColumns()
		if m.AlignCode == nil {
			m.AlignCode, m.SkipCode = map[int]int{}, map[int]int{}
		}
		al, sk := make([]int, n+1), make([]int, n+1)
		for i := range al {
			al[i], sk[i] = m.AlignCode[i], m.SkipCode[i]
		}
		ApplyProps(t, []PropOp{*op.P}, n, al, sk)
		for i := range al {
			m.AlignCode[i], m.SkipCode[i] = al[i], sk[i]
		}
		m.PropOps++
		return
	case "rowerr":
		if len(m.All) == 0 {
			m.Noops++
			return
		}
		r := m.All[mod(op.Ref, len(m.All))]
		m.UserErrs++
		r.Real.AddError(fmt.Errorf("application error %d noted on a row", m.UserErrs))
		return
	case "zerorow":
		r := &MRow{NilCells: true, Real: new(tabular.Row)}
		t.AddRow(r.Real)
		m.All = append(m.All, r)
		m.noteAttached(r)
		m.ZeroCellRow = true
	case "sep":
		t.AddSeparator()
		rows := t.AllRows()
		r := &MRow{Sep: true, Real: rows[len(rows)-1]}
		m.All = append(m.All, r)
		m.noteAttached(r)
		m.HasSep = true
	case "addrow":
		p := m.pending()
		if len(p) == 0 {
			m.Noops++
			return
		}
		r := p[mod(op.Ref, len(p))]
		t.AddRow(r.Real)
		m.noteAttached(r)
		if len(r.Cells) == 0 {
			m.ZeroCellRow = true
		}
	case "rowadd":
		if len(m.All) == 0 || len(op.Items) == 0 {
			m.Noops++
			return
		}
		r := m.All[mod(op.Ref, len(m.All))]
		for _, it := range op.Items {
			c := mcell(it)
			r.Real.Add(tabular.NewCell(c.Live.V))
			if r.Sep || r.NilCells {
				m.SepAdd = true
				continue // refused: a separator (or zero-value row) holds no cells
			}
			r.Cells = append(r.Cells, c)
			if r.Attached {
				r.LateAdds++
				m.LateAdd = true
				if len(r.Cells) > m.MaxEver {
					m.MaxEver = len(r.Cells)
				}
			}
		}
	default:
		panic("gen: unknown op " + op.K)
	}
	// raggedness
	n := -1
	for _, r := range m.Rows {
		if r.Sep {
			continue
		}
		if n >= 0 && len(r.Cells) != n {
			m.Ragged = true
		}
		n = len(r.Cells)
	}
	if m.HeaderSet && n >= 0 && len(m.Header) != n {
		m.Ragged = true
	}
}

func mod(a, n int) int {
	a %= n
	if a < 0 {
		a += n
	}
	return a
}

// Build creates the table and replays the whole script.
func Build(s Script) (tabular.Table, *Model) {
	t := NewTable(s.Creator)
	m := &Model{}
	for _, op := range s.Ops {
		m.Step(t, op)
	}
	return t, m
}

// BuildOn replays the script on an existing table.
func BuildOn(t tabular.Table, s Script) *Model {
	m := &Model{}
	for _, op := range s.Ops {
		m.Step(t, op)
	}
	return m
}

// Shape is a compact description of the op kinds and arities (for distinctness).
func (s Script) Shape() string {
	b := make([]byte, 0, len(s.Ops)*3)
	for _, op := range s.Ops {
		b = append(b, op.K[0], op.K[len(op.K)-1], byte('0'+len(op.Items)%10))
		if op.K == "rowadd" || op.K == "addrow" {
			b = append(b, byte('a'+mod(op.Ref, 26)))
		}
	}
	return s.Creator + ":" + string(b)
}

// ScrambleRowsCopy overwrites the line lists every cell hands out, then takes the row list the table hands out and reverses,
// truncates and nils it: it is documented as a copy, so nothing the table
// does afterwards may depend on it.
func ScrambleRowsCopy(t tabular.Table) {
	rr := t.AllRows()
	// the line lists the cells hand out are the caller's as well
	scribble := func(cells []tabular.Cell) {
		for i := range cells {
			l := cells[i].Lines()
			for k := range l {
				l[k] = "SCRIBBLED BY THE CALLER, WIDER THAN ANYTHING ELSE IN THE TABLE"
			}
		}
	}
	for _, r := range rr {
		if r != nil {
			scribble(r.Cells())
		}
	}
	scribble(t.Headers())
	for i, j := 0, len(rr)-1; i < j; i, j = i+1, j-1 {
		rr[i], rr[j] = rr[j], rr[i]
	}
	if len(rr) > 1 {
		rr[0] = rr[len(rr)-1]
		rr = rr[:len(rr)-1]
	}
	for i := range rr {
		if i%2 == 1 {
			rr[i] = nil
		}
	}
}
