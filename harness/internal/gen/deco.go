package gen

import (
	"reflect"
	"sort"

	"pgregory.net/rapid"

	"go.pennock.tech/tabular/texttable/decoration"
)

// DecoSpec names a built-in decoration or describes a custom one (a subset of
// the exported glyph fields, completed by Populate).
type DecoSpec struct {
	Name   string            `json:"name,omitempty"`   // registered name, or ""
	ByCtor bool              `json:"ctor,omitempty"`   // use the constructor function instead of the registry
	Custom map[string]string `json:"custom,omitempty"` // field -> glyph
	// FromNoBox: the custom decoration starts from NoBox() (which carries the unexported boxless flag) instead of
	// an empty Decoration: after Populate it draws no rule lines but has dividers like any other
	FromNoBox bool `json:"from_nobox,omitempty"`
	// Literal: the custom decoration is written out completely - every glyph field the Decoration type documents is given a
	// value (from Custom, else a fixed one) - and used as it is, without Populate: a complete decoration needs no filling in
	Literal bool `json:"literal,omitempty"`
	// Base, Blank: the custom decoration is derived from a finished one (the built-in of that name, by constructor if
	// ByCtor): the Custom glyphs are changed, the Blank fields are emptied, and Populate fills them in again
	Base  string   `json:"base,omitempty"`
	Blank []string `json:"blank,omitempty"`
	// Raw: only the Custom fields are set and Populate is NOT called (an application may register such a thing; it is
	// not a complete decoration, so only checks that make no claim about the drawing use it: C19)
	Raw bool `json:"raw,omitempty"`
}

var BuiltinDecos = []string{
	decoration.D_ASCII_SIMPLE, decoration.D_NONE, decoration.D_UTF8_LIGHT,
	decoration.D_UTF8_LIGHT_CURVED, decoration.D_UTF8_HEAVY, decoration.D_UTF8_DOUBLE,
}

var DecoFields = []string{
	"Horizontal", "Vertical", "CrossPiece", "TopDown", "VBorder", "HOuter", "HRule", "VHeader", "VBodyBorder", "VBodyInner",
	"TopLeft", "TopRight", "BottomLeft", "BottomRight", "LeftBodyRule", "RightBodyRule", "HTopDown", "BTopDown", "BBottomUp", "HBCross", "HBLeft", "HBRight",
}

// width-1 glyphs (ASCII punctuation, box drawing, a base+combining pair)
var Glyphs = []string{
	"+", "-", "|", "=", "#", "*", "~", ":", ".", "!", "o", "x", "/", "\\", "^", "$", "%", "@",
	"\u2500", "\u2502", "\u253c", "\u2550", "\u2551", "\u256c", "\u2501", "\u2503", "\u254b", "\u250c", "\u2510", "\u2514", "\u2518", "\u251c", "\u2524", "\u252c", "\u2534",
	"e\u0301", "a\u0308", "\u00b7", "\u00e9",
	"\u2500\u0305", "-\u0332\u0305", "\u2550\ufe0e", "=\u0333\u0305\u0332", // one cell, five to seven bytes (the Decoration documentation allows several runes per glyph)
}

func ctor(name string) decoration.Decoration {
	switch name {
	case decoration.D_ASCII_SIMPLE:
		return decoration.ASCIIBoxSimple()
	case decoration.D_NONE:
		return decoration.NoBox()
	case decoration.D_UTF8_LIGHT:
		return decoration.UTF8BoxLight()
	case decoration.D_UTF8_LIGHT_CURVED:
		return decoration.UTF8BoxLightCurved()
	case decoration.D_UTF8_HEAVY:
		return decoration.UTF8BoxHeavy()
	case decoration.D_UTF8_DOUBLE:
		return decoration.UTF8BoxDouble()
	}
	panic("gen: no constructor for decoration " + name)
}

// Make builds the decoration; boxless is true only for the "none" decoration.
func (d DecoSpec) Make() (deco decoration.Decoration, boxless bool) {
	if d.Custom != nil {
		if d.FromNoBox {
			deco = decoration.NoBox()
			boxless = true
		}
		if d.Base != "" && !d.FromNoBox && !d.Literal {
			if d.ByCtor {
				deco = ctor(d.Base)
			} else {
				deco = decoration.Named(d.Base)
			}
			boxless = d.Base == decoration.D_NONE
		}
		v := reflect.ValueOf(&deco).Elem()
		if d.Base != "" && !d.FromNoBox && !d.Literal {
			for _, k := range d.Blank {
				if f := v.FieldByName(k); f.IsValid() && f.CanSet() {
					f.SetString("")
				}
			}
		}
		keys := make([]string, 0, len(d.Custom))
		for k := range d.Custom {
			keys = append(keys, k)
		}
		sort.Strings(keys)
		for _, k := range keys {
			f := v.FieldByName(k)
			if f.IsValid() && f.CanSet() {
				f.SetString(d.Custom[k])
			}
		}
		if d.Raw {
			return deco, boxless
		}
		if d.Literal && !d.FromNoBox {
			for i, name := range DecoFields {
				if f := v.FieldByName(name); f.IsValid() && f.CanSet() && f.String() == "" {
					f.SetString(Glyphs[i%18]) // one of the ASCII glyphs
				}
			}
			return deco, false
		}
		deco.Populate()
		return deco, boxless
	}
	name := d.Name
	if name == "" {
		name = decoration.D_UTF8_HEAVY
	}
	if d.ByCtor {
		return ctor(name), name == decoration.D_NONE
	}
	return decoration.Named(name), name == decoration.D_NONE
}

func (d DecoSpec) Label() string {
	if d.Custom != nil {
		return "custom"
	}
	if d.Name == "" {
		return "default"
	}
	return d.Name
}

// DecoGen draws a built-in (by name or constructor) or a custom populated decoration.
func DecoGen() *rapid.Generator[DecoSpec] {
	return rapid.Custom(func(t *rapid.T) DecoSpec {
		if rapid.IntRange(0, 2).Draw(t, "custom") == 0 {
			fields := rapid.SliceOfNDistinct(rapid.SampledFrom(DecoFields), 1, len(DecoFields), rapid.ID[string]).Draw(t, "fields")
			glyphs := rapid.Permutation(Glyphs).Draw(t, "glyphs")
			m := map[string]string{}
			for i, f := range fields {
				m[f] = glyphs[i%len(glyphs)]
			}
			fromNoBox := rapid.IntRange(0, 4).Draw(t, "from-nobox") == 0
			if !fromNoBox && rapid.IntRange(0, 3).Draw(t, "derived") == 0 {
				blank := rapid.SliceOfNDistinct(rapid.SampledFrom(DecoFields), 1, 8, rapid.ID[string]).Draw(t, "blank")
				for _, b := range blank {
					delete(m, b)
				}
				if len(m) == 0 {
					m["CrossPiece"] = glyphs[0]
				}
				return DecoSpec{Custom: m, Base: rapid.SampledFrom(BuiltinDecos).Draw(t, "base"), ByCtor: rapid.Bool().Draw(t, "ctor"), Blank: blank}
			}
			return DecoSpec{Custom: m, FromNoBox: fromNoBox, Literal: !fromNoBox && rapid.IntRange(0, 3).Draw(t, "literal") == 0}
		}
		return DecoSpec{Name: rapid.SampledFrom(BuiltinDecos).Draw(t, "name"), ByCtor: rapid.Bool().Draw(t, "ctor")}
	})
}
