package gen

import (
	"testing"

	"go.pennock.tech/tabular/length"
)

// The documented precondition on decoration glyphs is display width 1.
func TestGlyphWidths(t *testing.T) {
	for _, g := range Glyphs {
		if w := length.StringCells(g); w != 1 {
			t.Errorf("glyph %q has width %d", g, w)
		}
	}
}
