// Package gen holds the shared, JSON-serialisable case vocabulary: token
// alphabets, item descriptors (ItemSpec), their materialisation into live Go
// values, the documented text form, and rapid generators for all of them.
package gen

import (
	"encoding/hex"
	"encoding/json"
	"errors"
	"fmt"
	"html/template"
	"math"
	"reflect"
	"unicode/utf8"

	"go.pennock.tech/tabular"
)

// Str is a string that survives a JSON round trip byte for byte: valid UTF-8
// is written as a JSON string, anything else as {"hex": "..."}.
type Str string

func (s Str) MarshalJSON() ([]byte, error) {
	if utf8.ValidString(string(s)) {
		return json.Marshal(string(s))
	}
	return json.Marshal(map[string]string{"hex": hex.EncodeToString([]byte(s))})
}

func (s *Str) UnmarshalJSON(b []byte) error {
	if len(b) > 0 && b[0] == '{' {
		var m map[string]string
		if err := json.Unmarshal(b, &m); err != nil {
			return err
		}
		raw, err := hex.DecodeString(m["hex"])
		if err != nil {
			return err
		}
		*s = Str(raw)
		return nil
	}
	var t string
	if err := json.Unmarshal(b, &t); err != nil {
		return err
	}
	*s = Str(t)
	return nil
}

// Item is the tagged description of a cell item.
//
// Kinds: nil str rune int i32n u8 f64 bool ints bytes map emap sx sn psx
// cell pcell if ifp chan tm jm
type Item struct {
	K  string `json:"k"`
	S  Str    `json:"s,omitempty"`  // string payload / String() result
	G  Str    `json:"g,omitempty"`  // GoString() result
	E  Str    `json:"e,omitempty"`  // Error() result
	N  int64  `json:"n,omitempty"`  // number / rune
	FS string `json:"fs,omitempty"` // float as text (so NaN/Inf survive JSON)
	M  int    `json:"m,omitempty"`  // interface mask for "if"/"ifp"
	H  int    `json:"h,omitempty"`  // declared height
	W  int    `json:"w,omitempty"`  // declared width
	P  bool   `json:"p,omitempty"`  // stored by pointer
	In *Item  `json:"in,omitempty"` // nested cell's item
}

const (
	MString = 1 << iota
	MGoString
	MError
	MHeight
	MWidth
)

// named non-rune int32
type NamedI32 int32

// NilSafeStr / NilSafeErr are pointer types whose text methods work on a nil receiver: a typed nil pointer of
// such a type is a perfectly good item (its text is the method's result, not "").
type NilSafeStr struct{ s string }

func (p *NilSafeStr) String() string {
	if p == nil {
		return "n/a"
	}
	return p.s
}

type NilSafeErr struct{ s string }

func (p *NilSafeErr) Error() string {
	if p == nil {
		return "no error (nil)"
	}
	return p.s
}

// FielderT implements tabular's (unused) Fielder interface and nothing else.
type FielderT struct{ A, B string }

func (f FielderT) Fields() []string { return []string{f.A, f.B, "extra"} }

// AnonFielderT implements tabular's (unused) AnonFielder interface and nothing else.
type AnonFielderT struct{ N int }

func (f AnonFielderT) AnonFields() []interface{} { return []interface{}{f.N, "x"} }

// NamedStr is a named string type: not a string for a type switch, formatted by %v.
type NamedStr string

// SX has exported fields (JSON-encodable as a non-empty object).
type SX struct {
	A int
	B string
}

// SN has no exported fields (JSON encodes it as {}), no methods.
type SN struct {
	a int
	b string
}

// SNS has no exported fields but a String method: JSON {} with text fallback.
type SNS struct {
	a int
	s string
}

func (s SNS) String() string { return s.s }

// TM implements encoding.TextMarshaler only.
type TM struct{ T string }

func (t TM) MarshalText() ([]byte, error) { return []byte(t.T), nil }

// JM implements json.Marshaler only.
type JM struct{ T string }

func (j JM) MarshalJSON() ([]byte, error) {
	return json.Marshal(map[string]interface{}{"jm": j.T, "n": len(j.T)})
}

// pointer-receiver types (stored by pointer only)
// PVS, PVE, PVG declare their text methods on the POINTER receiver only; held by value they have none of them and
// are "anything else".
type PVS struct {
	A int
	B string
}

func (p *PVS) String() string { return "String() of the pointer" }

type PVE struct {
	A int
	B string
}

func (p *PVE) Error() string { return "Error() of the pointer" }

type PVG struct {
	A int
	B string
}

func (p *PVG) GoString() string { return "GoString() of the pointer" }

// Omit encodes as {} or as an object depending on its VALUE (all fields omitempty).
type Omit struct {
	Soft int    `json:"soft,omitempty"`
	Note string `json:"note,omitempty"`
}

type PS struct{ St *St }

func (p *PS) String() string { return p.St.S }

type PE struct{ St *St }

func (p *PE) Error() string { return p.St.E }

type PGH struct{ St *St }

func (p *PGH) GoString() string { return p.St.G }
func (p *PGH) Height() int      { return p.St.H }

// Live is a materialised item plus the handles needed to mutate it.
type Live struct {
	V     interface{}
	St    *St           // for if/ifp
	PSX   *SX           // for psx
	Ints  []int         // for ints
	Inner *Live         // for cell/pcell
	Cell  *tabular.Cell // for pcell: the pointee
}

func (it Item) float() float64 {
	switch it.FS {
	case "nan":
		return math.NaN()
	case "+inf":
		return math.Inf(1)
	case "-inf":
		return math.Inf(-1)
	case "":
		return float64(it.N) / 4
	}
	var f float64
	fmt.Sscanf(it.FS, "%g", &f)
	return f
}

// Materialise turns the descriptor into a live Go value.
func Materialise(it Item) *Live {
	l := &Live{}
	switch it.K {
	case "nil":
		l.V = nil
	case "str":
		l.V = string(it.S)
	case "rune":
		l.V = rune(it.N)
	case "int":
		l.V = int(it.N)
	case "i32n":
		l.V = NamedI32(it.N)
	case "u8":
		l.V = uint8(it.N)
	case "f64":
		l.V = it.float()
	case "f32":
		l.V = float32(it.float())
	case "i64":
		l.V = it.N
	case "u64":
		l.V = uint64(it.N) // negative N wraps to the top of the range
	case "tstr":
		// the typed strings of html/template and friends: to a cell they are "anything else", their text is their %v
		switch ((it.N % 8) + 8) % 8 {
		case 0:
			l.V = template.HTML(it.S)
		case 1:
			l.V = template.JS(it.S)
		case 2:
			l.V = template.CSS(it.S)
		case 3:
			l.V = template.URL(it.S)
		case 4:
			l.V = template.HTMLAttr(it.S)
		case 5:
			l.V = template.JSStr(it.S)
		case 6:
			l.V = template.Srcset(it.S)
		default:
			l.V = json.RawMessage(it.S) // a []byte underneath: prints as a list of numbers
		}
	case "i8":
		l.V = int8(it.N)
	case "u16":
		l.V = uint16(it.N)
	case "c64":
		l.V = complex(float32(it.float()), float32(it.N))
	case "bool":
		l.V = it.N != 0
	case "ints":
		l.Ints = []int{int(it.N), int(it.N) + 1}
		l.V = l.Ints
	case "bytes":
		l.V = []byte(it.S)
	case "map":
		l.V = map[string]int{string(it.S): int(it.N)}
	case "emap":
		l.V = map[string]int{}
	case "sx":
		l.V = SX{int(it.N), string(it.S)}
	case "sn":
		l.V = SN{int(it.N), string(it.S)}
	case "sns":
		l.V = SNS{int(it.N), string(it.S)}
	case "psx":
		l.PSX = &SX{int(it.N), string(it.S)}
		l.V = l.PSX
	case "cell":
		in := Item{K: "nil"}
		if it.In != nil {
			in = *it.In
		}
		l.Inner = Materialise(in)
		l.V = tabular.NewCell(l.Inner.V)
	case "pcell":
		in := Item{K: "nil"}
		if it.In != nil {
			in = *it.In
		}
		l.Inner = Materialise(in)
		c := tabular.NewCell(l.Inner.V)
		l.Cell = &c
		l.V = l.Cell
	case "if":
		l.St = &St{S: string(it.S), G: string(it.G), E: string(it.E), H: it.H, W: it.W}
		l.V = MkIface(it.M, l.St, it.P)
	case "ifp":
		l.St = &St{S: string(it.S), G: string(it.G), E: string(it.E), H: it.H, W: it.W}
		switch {
		case it.M&MString != 0:
			l.V = &PS{l.St}
		case it.M&MError != 0:
			l.V = &PE{l.St}
		default:
			l.V = &PGH{l.St}
		}
	case "omit":
		l.V = Omit{int(it.N), string(it.S)}
	case "pval":
		switch ((it.N % 3) + 3) % 3 {
		case 0:
			l.V = PVS{int(it.N), string(it.S)}
		case 1:
			l.V = PVE{int(it.N), string(it.S)}
		default:
			l.V = PVG{int(it.N), string(it.S)}
		}
	case "fmtr":
		l.V = Fmtr(uint32(it.N))
	case "nilstr":
		l.V = (*NilSafeStr)(nil)
	case "nilerr":
		var e error = (*NilSafeErr)(nil)
		l.V = e
	case "fielder":
		l.V = FielderT{string(it.S), "b"}
	case "anonfielder":
		l.V = AnonFielderT{int(it.N)}
	case "nstr":
		l.V = NamedStr(it.S)
	case "stderr":
		l.V = errors.New(string(it.S))
	case "chan":
		l.V = make(chan int)
	case "tm":
		l.V = TM{string(it.S)}
	case "jm":
		l.V = JM{string(it.S)}
	default:
		panic("gen: unknown item kind " + it.K)
	}
	return l
}

// ifpMask normalises the effective method mask of an "ifp" item.
func (it Item) EffMask() int {
	switch it.K {
	case "if":
		return it.M & 31
	case "ifp":
		switch {
		case it.M&MString != 0:
			return MString
		case it.M&MError != 0:
			return MError
		default:
			return MGoString | MHeight
		}
	}
	return 0
}

// TextForm is the documented text form of an item, written from the property
// statement (never by calling Cell.String).  live must be the materialised
// value of it, used only for the "anything else is fmt %v" arm.
func TextForm(it Item, live *Live) string {
	switch it.K {
	case "nil":
		return ""
	case "str":
		return string(it.S)
	case "rune":
		return string(rune(it.N))
	case "cell":
		in := Item{K: "nil"}
		if it.In != nil {
			in = *it.In
		}
		return TextForm(in, live.Inner)
	case "pcell":
		// *Cell offers String() (value method promoted to the pointer): String() wins,
		// and Cell.String() is the inner cell's text.
		in := Item{K: "nil"}
		if it.In != nil {
			in = *it.In
		}
		return TextForm(in, live.Inner)
	case "if", "ifp":
		m := it.EffMask()
		st := live.St
		switch {
		case m&MString != 0:
			return st.S
		case m&MGoString != 0:
			return st.G
		case m&MError != 0:
			return st.E
		}
		return fmt.Sprintf("%v", live.V)
	case "sns", "stderr":
		return string(it.S)
	case "nilstr":
		return "n/a"
	case "nilerr":
		return "no error (nil)"
	}
	return fmt.Sprintf("%v", live.V)
}

// DeclaredHeight reports whether the item overrides its height, and the value.
func (it Item) DeclaredHeight() (int, bool) {
	if it.EffMask()&MHeight != 0 {
		return it.H, true
	}
	return 0, false
}

// DeclaredWidth reports whether the item overrides its width, and the value.
func (it Item) DeclaredWidth() (int, bool) {
	if it.K == "if" && it.M&MWidth != 0 {
		return it.W, true
	}
	return 0, false
}

// Str builds a string item.
func S(s string) Item { return Item{K: "str", S: Str(s)} }

// SameItem: the cell hands back the original item unchanged.
func SameItem(orig, got interface{}) bool {
	if orig == nil || got == nil {
		return orig == nil && got == nil
	}
	if reflect.TypeOf(orig) != reflect.TypeOf(got) {
		return false
	}
	vo, vg := reflect.ValueOf(orig), reflect.ValueOf(got)
	switch vo.Kind() {
	case reflect.Ptr, reflect.Chan, reflect.Map, reflect.UnsafePointer:
		return vo.Pointer() == vg.Pointer()
	case reflect.Slice:
		return vo.Pointer() == vg.Pointer() && vo.Len() == vg.Len()
	case reflect.Float64, reflect.Float32:
		return math.Float64bits(vo.Float()) == math.Float64bits(vg.Float()) // NaN is itself
	case reflect.Complex64, reflect.Complex128:
		co, cg := vo.Complex(), vg.Complex()
		return math.Float64bits(real(co)) == math.Float64bits(real(cg)) && math.Float64bits(imag(co)) == math.Float64bits(imag(cg))
	}
	if co, ok := orig.(tabular.Cell); ok {
		cg := got.(tabular.Cell)
		return co.String() == cg.String() && SameItem(co.Item(), cg.Item())
	}
	if vo.Type().Comparable() {
		return orig == got
	}
	return reflect.DeepEqual(orig, got)
}

// NoAddressText rewrites an item so that its text form does not depend on a
// memory address (a matrix item with no text method prints as a struct holding
// a pointer), for oracles that compare two independently built tables.
func NoAddressText(it Item) Item {
	if it.K == "if" && it.M&7 == 0 {
		it.M |= MString
	}
	if it.In != nil {
		in := NoAddressText(*it.In)
		it.In = &in
	}
	return it
}

// Mutate changes a live item in place (behind the cell's back) to the state
// carried by to; it reports false if the item kind cannot be mutated.
func Mutate(l *Live, it Item, to Item) bool {
	switch it.K {
	case "if", "ifp":
		l.St.S, l.St.G, l.St.E = string(to.S), string(to.G), string(to.E)
		if to.M != 0 { // M != 0 marks "the declared sizes change too"
			l.St.H, l.St.W = to.H, to.W
		}
		return true
	case "psx":
		l.PSX.A, l.PSX.B = int(to.N), string(to.S)
		return true
	case "ints":
		l.Ints[0] = int(to.N)
		return true
	}
	return false
}

// Fmtr is a named basic-kind type that implements fmt.Formatter only: its
// %v text is whatever Format writes.
type Fmtr uint32

func (f Fmtr) Format(st fmt.State, verb rune) { fmt.Fprintf(st, "0x%08x", uint32(f)) }
