package gen

import (
	"fmt"

	"go.pennock.tech/tabular"
	"go.pennock.tech/tabular/properties"
	"go.pennock.tech/tabular/properties/align"
	"pgregory.net/rapid"
)

// PropOp is one step of a property history on the columns of a table: the last setting of a key on a column wins and
// setting nil removes it, whatever else the column carries and however many keys it carries.
//
// Key "align" (Val 0 remove, 1 left, 2 right, 3 centre), "skip" (Val 0 remove, odd true, even false), or a user key
// "u0".."u4" (Val 0 remove, else a value).  Col is taken modulo columns+1 (column 0 holds the defaults).
type PropOp struct {
	Col int    `json:"col"`
	Key string `json:"key"`
	Val int    `json:"val,omitempty"`
}

type uk0 struct{}
type uk1 int
type uk2 string

var ukPtr = new(int)

func userKey(k string) interface{} {
	switch k {
	case "u0":
		return uk0{}
	case "u1":
		return uk1(1)
	case "u2":
		return uk2("1")
	case "u3":
		return ukPtr
	}
	return 1 // "u4": a bare int
}

// AlignOf maps an alignment code to the library's value (nil for 0).
func AlignOf(code int) interface{} {
	switch code {
	case 1:
		return align.Left
	case 2:
		return align.Right
	case 3:
		return align.Center
	}
	return nil
}

// Col values that name an owner which is no column: the table itself, its last row, the first cell of its last cell row.
const (
	OwnerTable = 100 + iota
	OwnerRow
	OwnerCell
)

func elsewhere(t tabular.Table, op PropOp) {
	var h tabular.PropertyOwner
	rows := t.AllRows()
	switch op.Col {
	case OwnerTable:
		h = t
	case OwnerRow:
		if len(rows) > 0 {
			h = rows[len(rows)-1]
		}
	default:
		for i := len(rows) - 1; i >= 0 && h == nil; i-- {
			if cells := rows[i].Cells(); len(cells) > 0 {
				h = &cells[0]
			}
		}
	}
	if h == nil {
		return
	}
	switch op.Key {
	case "align":
		h.SetProperty(align.PropertyType, AlignOf(((op.Val%4)+4)%4))
	case "skip":
		if op.Val == 0 {
			h.SetProperty(properties.Skipable, nil)
		} else {
			h.SetProperty(properties.Skipable, op.Val%2 != 0)
		}
	default:
		if op.Val == 0 {
			h.SetProperty(userKey(op.Key), nil)
		} else {
			h.SetProperty(userKey(op.Key), op.Val)
		}
	}
}

type nopOwner struct{}

func (nopOwner) SetProperty(interface{}, interface{}) error { return nil }
func (nopOwner) GetProperty(interface{}) interface{}        { return nil }

// ApplyProps performs the history on the table's columns (n = number of columns) and folds it into the effective
// alignment and skipable codes (both indexed by column number, 0 = unset; skip 1 true, 2 false).  A nil table folds only.
func ApplyProps(t tabular.Table, ops []PropOp, n int, alignCodes, skipCodes []int) {
	for _, op := range ops {
		if op.Col >= OwnerTable {
			// the same keys on an owner that is not a column: the columns do not care
			if t != nil {
				elsewhere(t, op)
			}
			continue
		}
		col := ((op.Col % (n + 1)) + n + 1) % (n + 1)
		var h tabular.PropertyOwner = nopOwner{}
		if t != nil {
			h = t.Column(col)
		}
		switch op.Key {
		case "align":
			code := ((op.Val % 4) + 4) % 4
			h.SetProperty(align.PropertyType, AlignOf(code))
			if col < len(alignCodes) {
				alignCodes[col] = code
			}
		case "skip":
			switch {
			case op.Val == 0:
				h.SetProperty(properties.Skipable, nil)
				if col < len(skipCodes) {
					skipCodes[col] = 0
				}
			default:
				h.SetProperty(properties.Skipable, op.Val%2 != 0)
				if col < len(skipCodes) {
					skipCodes[col] = 2 - ((op.Val%2)+2)%2
				}
			}
		default:
			if op.Val == 0 {
				h.SetProperty(userKey(op.Key), nil)
			} else {
				h.SetProperty(userKey(op.Key), op.Val)
			}
		}
	}
}

// PropHistDepth is the largest number of distinct keys any one column carries at some point of the history.
func PropHistDepth(ops []PropOp, n int) int {
	live := map[int]map[string]bool{}
	best := 0
	for _, op := range ops {
		if op.Col >= OwnerTable {
			continue
		}
		col := ((op.Col % (n + 1)) + n + 1) % (n + 1)
		if live[col] == nil {
			live[col] = map[string]bool{}
		}
		if op.Val == 0 || (op.Key == "align" && op.Val%4 == 0) {
			delete(live[col], op.Key)
		} else {
			live[col][op.Key] = true
		}
		if len(live[col]) > best {
			best = len(live[col])
		}
	}
	return best
}

// PropHistGen draws a history that piles several keys onto few columns (property stores are per-owner chains: what
// matters is how many keys one owner carries and which of them is touched next).
func PropHistGen(maxOps int) *rapid.Generator[[]PropOp] {
	keys := []string{"align", "align", "skip", "u0", "u1", "u2", "u3", "u4"}
	return rapid.Custom(func(t *rapid.T) []PropOp {
		n := rapid.IntRange(1, maxOps).Draw(t, "nprops")
		out := make([]PropOp, n)
		for i := range out {
			out[i] = PropOp{Col: rapid.SampledFrom([]int{0, 0, 1, 1, 2, 2, 0, 1, 2, OwnerTable, OwnerRow, OwnerCell}).Draw(t, "col"), Key: rapid.SampledFrom(keys).Draw(t, "key"), Val: rapid.IntRange(0, 3).Draw(t, "val")}
		}
		return out
	})
}

// AppCallback is an application's own cell callback: it looks at the cell and, in its failing form, reports an
// error for the cells whose text has an odd length.  It sets nothing.
type AppCallback struct{ Fails bool }

func (a AppCallback) UpdateProperties(po tabular.PropertyOwner) error {
	if cell, ok := po.(*tabular.Cell); ok && a.Fails && len(cell.String())%2 == 1 {
		return fmt.Errorf("application callback: does not like %q", cell.String())
	}
	return nil
}

// RegisterApp registers the application's render-time cell callback on the table (kind 1: it reports errors, 2: it
// never fails, 0: none).
func RegisterApp(t tabular.Table, kind int) {
	if kind > 0 {
		t.RegisterPropertyCallback(t, tabular.CB_AT_RENDER, tabular.CB_ON_CELL, AppCallback{Fails: kind == 1})
	}
}
