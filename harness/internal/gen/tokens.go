package gen

import (
	"strings"

	"pgregory.net/rapid"
)

// Token alphabets: strings are built by concatenating drawn tokens, so
// multi-rune sequences occur often.

var TokASCII = []string{
	"a", "b", "Z", "0", "9", " ", "  ", ".", "-", "_", "x", "ab", "abc", "Hello", "foo bar", "!", "#", "~", "%", "%s", "50%", "%d%%", "%!v(",
}

var TokWidth = append([]string{
	"\u6f22", "\u5b57", "\uff21", // wide CJK, full-width A
	"e\u0301", "\u0301", "\u0308", "u\u0308", // combining
	"\u200b", "\u200d", "\ufeff", "\u202a", // zero width
	"\U0001f469", "\U0001f469\u200d\U0001f4bb", "\U0001f1e6\U0001f1e7", "\u2764\ufe0f", "\U0001f44d\U0001f3fd", // emoji sequences
	"\uff9e", "\uff76\uff9e", "\u0903", "\u0915\u0903", // width-1 extender, spacing mark
	"\u0600", "\u06dd1", "\u0600123", "\u0d4e\u0d15", // Prepend characters: they join the character that FOLLOWS them
	"\u00a0", "\u3000", // NBSP, ideographic space
	"\t", "\r",
	"\x1b[31m", "\x1b[0m", "\x1b[1;32m", "\x1b", "\x1b[", "\x1b[1;3", "x\x1b[", "\x1b]0;t\a", "\x7f", "\x00", "\b", // terminal control: to the measure they are ordinary (zero-width control + printable) characters
	"\n", "\n\n", "a\nb", "\nq", "q\n",
	"\u00e9", "\u00df", "\u2192", "\u2502", "\u2503", "|", "+", "\u2501",
}, TokASCII...)

var TokCSV = append([]string{
	"\"", "\"\"", ",", "\r", "\n", "\r\n", "\x00", ";", "\t", " ", "\",\"", "\"\n", ",\"",
	"\u00e9", "\u6f22", "\xff", "\xc3", "\xe2\x82", "\xf0\x9f", "a\"b", "'",
}, TokASCII...)

var TokHTML = append([]string{
	"<", ">", "&", "\"", "'", "`", "=", "/", ";", "&amp;", "&lt", "&lt;", "&#60;", "&#x3c;", "&quot;", "&#39;", "&#34;",
	"</td>", "<td>", "</th>", "<script>", "</script>", "<style>", "<!--", "-->", "]]>", "<![CDATA[", "javascript:", "+",
	"\n", "\r", "\ufffd", "\ufdd0", "\ufffe", "</table>", "<b>", " onload=", "\" x=\"", "' x='", "&", "&&", "&#", "&#x", "&;",
	"</caption>", "<tr class=\"x\">", "{{.}}", "{{", "}}",
}, TokWidth...)

var TokMD = func() []string {
	t := []string{
		"|", "\\", "`", "*", "_", "[", "]", "(", ")", "<", ">", "&", "\"", "'", "&#x7c;", "&#124;", "&vert;", "\\|", "\\\\|", "||", "| |",
		"\n", "\n\n", "&#x0a;", "&#10;", "---", ":--", "--:", ":-:", " | ", "a|b", "&amp;#x7c;", "&#x7C;", "&#39;", "&#34;", "&lt;", "&gt;", "&amp;",
	}
	for _, s := range TokHTML {
		if !strings.Contains(s, "\r") {
			t = append(t, s)
		}
	}
	return t
}()

// TokJSONKey is for JSON header texts (valid UTF-8 only).
var TokJSONKey = append([]string{
	"\"", "\\", "/", "\b", "\f", "\n", "\r", "\t", "\x00", "\x1f", "<", ">", "&", "\u2028", "\u2029", "\u007f", "\u00e9", "\u6f22", "\U0001f469", "\\u0041", "\\\"", "key", "k", "K",
}, TokASCII...)

// StringOf draws a string made of 0..maxTok tokens.
func StringOf(tokens []string, minTok, maxTok int) *rapid.Generator[string] {
	return rapid.Custom(func(t *rapid.T) string {
		parts := rapid.SliceOfN(rapid.SampledFrom(tokens), minTok, maxTok).Draw(t, "tok")
		return strings.Join(parts, "")
	})
}

// ClassOf labels the character classes present in s (for evidence histograms).
func ClassOf(s string) []string {
	var out []string
	has := func(sub string) bool { return strings.Contains(s, sub) }
	if has("\n") {
		out = append(out, "lf")
	}
	if has("\r") {
		out = append(out, "cr")
	}
	if has("\"") {
		out = append(out, "dquote")
	}
	if has(",") {
		out = append(out, "comma")
	}
	if has("<") || has(">") {
		out = append(out, "angle")
	}
	if has("&") {
		out = append(out, "amp")
	}
	if has("|") {
		out = append(out, "pipe")
	}
	if has("\u200d") {
		out = append(out, "zwj")
	}
	for _, r := range s {
		if r >= 0x1100 && (r <= 0x115f || (r >= 0x2e80 && r <= 0xa4cf) || (r >= 0xff00 && r <= 0xff60) || r >= 0x1f300) {
			out = append(out, "wide")
			break
		}
	}
	for _, r := range s {
		if r > 0x7f {
			out = append(out, "nonascii")
			break
		}
	}
	return out
}

// BoundaryString draws a long string whose length sits at or next to a typical buffer size (1 KiB ... 64 KiB), made of a filler with a few tokens of the alphabet at the start, at the end and right at the boundary.
func BoundaryString(tokens []string) *rapid.Generator[string] {
	return rapid.Custom(func(t *rapid.T) string {
		size := rapid.SampledFrom([]int{1024, 1024, 4096, 4096, 8192}).Draw(t, "size")
		if Rarely(t, "huge", 12) {
			// the library's width measure is quadratic on long runs, so the biggest sizes are drawn sparingly
			size = rapid.SampledFrom([]int{16384, 32768}).Draw(t, "huge-size")
		}
		delta := rapid.IntRange(-3, 3).Draw(t, "delta")
		head := StringOf(tokens, 0, 2).Draw(t, "head")
		tail := StringOf(tokens, 0, 3).Draw(t, "tail")
		filler := rapid.SampledFrom([]string{"a", "x", " ", "\u00e9"}).Draw(t, "filler")
		n := size + delta - len(head) - len(tail)
		if n < 0 {
			n = 0
		}
		return head + strings.Repeat(filler, n/len(filler)) + tail
	})
}

// ExpandingString draws a string of a length at or next to a small buffer size (16 ... 256 bytes) in which one
// "hot" token - one that an escaper has to expand - makes up all, half, a few or one of the positions: output that
// grows past whatever was reserved for it from the input length.
func ExpandingString(hot []string) *rapid.Generator[string] {
	return rapid.Custom(func(t *rapid.T) string {
		size := rapid.SampledFrom([]int{16, 32, 32, 48, 64, 64, 128, 256}).Draw(t, "size") + rapid.IntRange(-4, 2).Draw(t, "delta")
		h := rapid.SampledFrom(hot).Draw(t, "hot")
		filler := rapid.SampledFrom([]string{"a", "a", " ", "\u00e9"}).Draw(t, "filler")
		every := rapid.SampledFrom([]int{1, 2, 3, 8, 1000}).Draw(t, "every") // 1000: a single hot token, at the end
		var b strings.Builder
		for i := 0; b.Len() < size; i++ {
			if i%every == every-1 || (every == 1000 && b.Len()+len(h) >= size) {
				b.WriteString(h)
			} else {
				b.WriteString(filler)
			}
		}
		return b.String()
	})
}

// Rarely is true about once in oneIn draws.  rapid's integer generator is strongly biased towards the ends of a
// range (0 comes up in about 10% of the draws from [0,249]), so a rare event must not be coded as "== 0": it is
// tied to a value in the middle of the range, which is drawn with about half the uniform probability.
func Rarely(t *rapid.T, label string, oneIn int) bool {
	n := oneIn / 2
	if n < 4 {
		n = 4
	}
	return rapid.IntRange(0, n).Draw(t, label) == n/2+1
}
