package gen

import (
	"math"
	"pgregory.net/rapid"
)

// StrItem draws a string item over the given tokens.
func StrItem(tokens []string, maxTok int) *rapid.Generator[Item] {
	return rapid.Custom(func(t *rapid.T) Item {
		return S(StringOf(tokens, 0, maxTok).Draw(t, "s"))
	})
}

// BytesItem draws a string item from arbitrary bytes mixed with tokens.
func BytesItem(tokens []string) *rapid.Generator[Item] {
	return rapid.Custom(func(t *rapid.T) Item {
		if rapid.IntRange(0, 3).Draw(t, "raw") == 0 {
			return S(string(rapid.SliceOfN(rapid.Byte(), 0, 8).Draw(t, "bytes")))
		}
		return S(StringOf(tokens, 0, 5).Draw(t, "s"))
	})
}

// rune values, including ones that are not valid code points (a rune is just an int32: such a value reads as U+FFFD)
var validRunes = []rune{'a', 'Z', '0', ' ', '\n', '\t', 0, 0xe9, 0x6f22, 0x1f469, 0x200b, 0x301, 0xff9e, 0xfffd, 0x10ffff, '"', '<', '|', 0xd800, 0xdfff, -1, 0x110000, 0x600}

// AnyItem draws an item of any kind; depth bounds cell nesting.
func AnyItem(tokens []string, depth int) *rapid.Generator[Item] {
	return rapid.Custom(func(t *rapid.T) Item {
		kinds := []string{"nil", "str", "str", "str", "rune", "int", "i32n", "u8", "tstr", "pval", "omit", "omit", "f64", "f32", "i64", "u64", "i8", "u16", "c64", "bool", "ints", "bytes", "map", "emap", "sx", "sn", "sns", "psx", "if", "if", "if", "ifp", "tm", "jm", "fmtr", "nstr", "stderr", "fielder", "anonfielder", "nilstr", "nilerr"}
		if depth > 0 {
			kinds = append(kinds, "cell", "cell", "pcell")
		}
		k := rapid.SampledFrom(kinds).Draw(t, "kind")
		str := func(label string) Str { return Str(StringOf(tokens, 0, 4).Draw(t, label)) }
		it := Item{K: k}
		switch k {
		case "str", "bytes", "sns", "tm", "jm", "nstr", "stderr", "fielder":
			it.S = str("s")
		case "tstr":
			it.S = str("s")
			it.N = int64(rapid.IntRange(0, 7).Draw(t, "tstr-type"))
		case "rune":
			it.N = int64(rapid.SampledFrom(validRunes).Draw(t, "r"))
		case "int", "i32n", "ints", "fmtr", "anonfielder":
			it.N = int64(rapid.IntRange(-1000, 1000).Draw(t, "n"))
		case "u8":
			it.N = int64(rapid.IntRange(0, 255).Draw(t, "n"))
		case "bool":
			it.N = int64(rapid.IntRange(0, 1).Draw(t, "n"))
		case "f64", "f32", "c64":
			it.FS = rapid.SampledFrom([]string{"", "", "", "nan", "+inf", "-inf", "1e+100", "-0.5", "-0", "-0", "0", "0.1", "3.14", "1e21", "1e20", "-2.7e-7", "1e-6", "1e-7", "5e-324", "1.7976931348623157e308", "16777217", "123456.7"}).Draw(t, "fs")
			it.N = int64(rapid.IntRange(-100, 100).Draw(t, "n"))
		case "i64", "u64":
			it.N = rapid.SampledFrom([]int64{0, 1, -1, 42, 255, 1 << 31, 1<<53 + 1, math.MaxInt64, math.MinInt64, -1 << 40}).Draw(t, "n64")
		case "omit":
			it.N = int64(rapid.SampledFrom([]int{0, 0, 0, 3, -1}).Draw(t, "soft"))
			if rapid.IntRange(0, 2).Draw(t, "note?") == 0 {
				it.S = str("s")
			}
		case "i8", "u16":
			it.N = int64(rapid.IntRange(-128, 127).Draw(t, "n"))
		case "map", "sx", "sn", "psx", "pval":
			it.S = str("s")
			it.N = int64(rapid.IntRange(-9, 9).Draw(t, "n"))
		case "if":
			it = IfaceItem(tokens, -1).Draw(t, "if")
		case "ifp":
			it.M = rapid.SampledFrom([]int{MString, MError, MGoString | MHeight}).Draw(t, "m")
			it.S, it.G, it.E = str("s"), str("g"), str("e")
			it.H = rapid.IntRange(0, 3).Draw(t, "h")
		case "cell", "pcell":
			in := AnyItem(tokens, depth-1).Draw(t, "in")
			it.In = &in
		}
		return it
	})
}

// IfaceItem draws an interface-matrix item; mask<0 draws the mask too.
func IfaceItem(tokens []string, mask int) *rapid.Generator[Item] {
	return rapid.Custom(func(t *rapid.T) Item {
		it := Item{K: "if", M: mask}
		if mask < 0 {
			it.M = rapid.IntRange(0, 31).Draw(t, "mask")
		}
		it.P = rapid.Bool().Draw(t, "ptr")
		it.S = Str(StringOf(tokens, 0, 3).Draw(t, "s"))
		it.G = Str(StringOf(tokens, 0, 3).Draw(t, "g"))
		it.E = Str(StringOf(tokens, 0, 3).Draw(t, "e"))
		it.H = DeclSize(t, "h", 4)
		it.W = DeclSize(t, "w", 9)
		return it
	})
}

// DeclSize draws a declared width or height: 0..max, and now and then a negative one (nothing stops an item from
// declaring it; the library reads it as "none").
func DeclSize(t *rapid.T, label string, max int) int {
	n := rapid.IntRange(0, max).Draw(t, label)
	if Rarely(t, label+"-neg", 12) {
		return -1 - n%3
	}
	return n
}

// ScriptOpts tunes the build-history generator.
type ScriptOpts struct {
	Item        *rapid.Generator[Item]
	MinOps      int
	MaxOps      int
	MaxCells    int  // usual maximum number of cells per row/header
	HeavyTail   int  // if >0, occasionally up to this many cells
	MultiHdr    bool // allow more than one AddHeaders
	ForceHdr    bool // always set a header (at a random position)
	NoHdr       bool // never set a header
	NoLateAdd   bool // no Row.Add on attached rows
	NoSepAdd    bool // no Row.Add on separator rows
	Creators    []string
	HdrItem     *rapid.Generator[Item] // generator for header items (default Item)
	NoZeroHdr   bool                   // header has at least one cell
	SimpleOnly  bool                   // only hdr/rowitems/sep
	HdrCells    [2]int                 // if HdrCells[1] > 0: header cell count drawn from [HdrCells[0], HdrCells[1]]
	AllowCopy   bool                   // also generate "copycell" (a by-value copy of an existing cell added to a row) and "newrowother"
	AllowMutate bool                   // also generate "mutate": change a mutable item and call Cell.Update()
	AllowProps  bool                   // also generate "prop": property-history steps on the columns in between the build steps
	AllowRowErr bool                   // also generate "rowerr": Row.AddError on a pending or attached row
	AllowReAdd  bool                   // also generate "readd": AddRow of a row that is already attached
}

func (o ScriptOpts) cellCount(t *rapid.T, label string) int {
	max := o.MaxCells
	if max <= 0 {
		max = 4
	}
	if o.HeavyTail > 0 && rapid.IntRange(0, 11).Draw(t, label+"-tail") == 0 {
		return rapid.IntRange(max, o.HeavyTail).Draw(t, label+"-big")
	}
	return rapid.IntRange(0, max).Draw(t, label)
}

// ScriptGen draws a build history.
func ScriptGen(o ScriptOpts) *rapid.Generator[Script] {
	return rapid.Custom(func(t *rapid.T) Script {
		var s Script
		if len(o.Creators) > 0 {
			s.Creator = rapid.SampledFrom(o.Creators).Draw(t, "creator")
		}
		n := rapid.IntRange(o.MinOps, o.MaxOps).Draw(t, "nops")
		kinds := []string{"rowitems", "rowitems", "rowitems", "sep", "appendnew", "newrow", "newrowcap", "newrowsized", "rowadd", "rowadd", "addrow", "addrow", "zerorow"}
		if o.SimpleOnly {
			kinds = []string{"rowitems", "rowitems", "rowitems", "sep"}
		}
		if !o.SimpleOnly && !o.NoLateAdd {
			kinds = append(kinds, "burst")
		}
		if !o.NoHdr && (!o.ForceHdr || o.MultiHdr) {
			kinds = append(kinds, "hdr")
		}
		if o.AllowReAdd {
			kinds = append(kinds, "readd")
		}
		if o.AllowProps {
			kinds = append(kinds, "prop", "prop")
		}
		if o.AllowRowErr {
			kinds = append(kinds, "rowerr")
		}
		propKeys := []string{"align", "align", "skip", "skip", "u0", "u1", "u2"}
		if o.AllowMutate {
			kinds = append(kinds, "mutate", "mutate")
		}
		if o.AllowCopy {
			kinds = append(kinds, "copycell", "newrowother", "foreigncell")
		}
		if o.AllowRowErr {
			kinds = append(kinds, "newrowzero")
		}
		hdrItem := o.HdrItem
		if hdrItem == nil {
			hdrItem = o.Item
		}
		items := func(label string, g *rapid.Generator[Item], min int) []Item {
			c := 0
			if label == "hn" && o.HdrCells[1] > 0 {
				c = rapid.IntRange(o.HdrCells[0], o.HdrCells[1]).Draw(t, label)
				if o.HeavyTail > o.HdrCells[1] && Rarely(t, label+"-tail", 10) {
					c = rapid.IntRange(o.HdrCells[1], o.HeavyTail).Draw(t, label+"-big")
				}
			} else {
				c = o.cellCount(t, label)
			}
			if c < min {
				c = min
			}
			out := make([]Item, c)
			for i := range out {
				out[i] = g.Draw(t, "item")
			}
			return out
		}
		hdrMin := 0
		if o.NoZeroHdr {
			hdrMin = 1
		}
		hdrs := 0
		// model-free bookkeeping for NoLateAdd/NoSepAdd: track which created rows are attached/sep
		type rk struct{ attached, sep bool }
		var rows []rk
		for i := 0; i < n; i++ {
			k := rapid.SampledFrom(kinds).Draw(t, "op")
			op := Op{K: k}
			switch k {
			case "hdr":
				if hdrs > 0 && !o.MultiHdr {
					continue
				}
				hdrs++
				op.Items = items("hn", hdrItem, hdrMin)
			case "rowitems":
				op.Items = items("rn", o.Item, 0)
				rows = append(rows, rk{attached: true})
			case "sep":
				rows = append(rows, rk{attached: true, sep: true})
			case "appendnew":
				rows = append(rows, rk{attached: true})
			case "prop":
				// the highest column of the moment (-1), the defaults column (0) and the first few
				op.P = &PropOp{Col: rapid.SampledFrom([]int{0, 0, -1, -1, 1, 2, 3, 0, -1, 1, OwnerTable, OwnerRow, OwnerCell}).Draw(t, "pcol"), Key: rapid.SampledFrom(propKeys).Draw(t, "pkey"), Val: rapid.IntRange(0, 3).Draw(t, "pval")}
			case "rowerr":
				if len(rows) == 0 {
					continue
				}
				op.Ref = rapid.IntRange(0, len(rows)-1).Draw(t, "ref")
			case "burst":
				// several rows made one after the other (in the table, or pending) and then grown in turns, each
				// beyond the width the table had when the row was made
				nr := rapid.IntRange(2, 3).Draw(t, "burst-rows")
				mk := rapid.SampledFrom([]string{"appendnew", "appendnew", "newrowsized", "newrow"}).Draw(t, "burst-make")
				first := len(rows)
				for b := 0; b < nr; b++ {
					rows = append(rows, rk{attached: mk == "appendnew"})
					s.Ops = append(s.Ops, Op{K: mk})
				}
				adds := rapid.IntRange(2, 6).Draw(t, "burst-adds")
				for a := 0; a < adds; a++ {
					ad := Op{K: "rowadd", Ref: first + rapid.IntRange(0, nr-1).Draw(t, "burst-ref")}
					for e := rapid.IntRange(1, 4).Draw(t, "burst-items"); e > 0; e-- {
						ad.Items = append(ad.Items, o.Item.Draw(t, "item"))
					}
					s.Ops = append(s.Ops, ad)
				}
				continue
			case "zerorow":
				rows = append(rows, rk{attached: true, sep: true}) // like a separator it refuses Add
			case "newrow", "newrowsized":
				rows = append(rows, rk{})
			case "newrowzero":
				rows = append(rows, rk{sep: true}) // refuses Add like a separator
			case "foreigncell":
				op.Items = []Item{o.Item.Draw(t, "item")}
				rows = append(rows, rk{attached: true})
			case "newrowcap":
				op.Cap = rapid.IntRange(0, 12).Draw(t, "cap")
				rows = append(rows, rk{})
			case "rowadd":
				if len(rows) == 0 {
					continue
				}
				op.Ref = rapid.IntRange(0, len(rows)-1).Draw(t, "ref")
				if (o.NoLateAdd && rows[op.Ref].attached && !rows[op.Ref].sep) || (o.NoSepAdd && rows[op.Ref].sep) {
					continue
				}
				op.Items = []Item{o.Item.Draw(t, "item")}
				if extra := rapid.IntRange(0, 5).Draw(t, "extra-adds") - 2; extra > 0 {
					for e := 0; e < extra; e++ {
						op.Items = append(op.Items, o.Item.Draw(t, "item"))
					}
				}
			case "copycell":
				op.Ref = rapid.IntRange(0, 5).Draw(t, "ref")
				op.Cap = rapid.IntRange(0, 4).Draw(t, "cell")
				op.To = rapid.IntRange(0, 5).Draw(t, "to")
			case "newrowother":
				op.Cap = rapid.IntRange(0, 6).Draw(t, "otherwidth")
				rows = append(rows, rk{})
			case "mutate":
				op.Ref = rapid.IntRange(0, 5).Draw(t, "ref")
				op.Cap = rapid.IntRange(0, 4).Draw(t, "cell")
				to := o.Item.Draw(t, "to")
				op.Items = []Item{{K: "str", S: to.S, G: to.G, E: to.E, N: to.N}}
				switch rapid.IntRange(0, 3).Draw(t, "resize") {
				case 0: // the declared sizes change as well
					op.Items[0].M, op.Items[0].H, op.Items[0].W = 1, DeclSize(t, "newh", 4), DeclSize(t, "neww", 9)
				case 1: // ONLY the declared sizes change: the text stays what it is ("keep")
					op.Items[0] = Item{K: "keep", M: 1, H: DeclSize(t, "newh", 4), W: DeclSize(t, "neww", 9)}
				}
			case "readd":
				op.Ref = rapid.IntRange(0, 5).Draw(t, "ref")
				rows = append(rows, rk{attached: true, sep: true}) // no further Add through this alias
			case "addrow":
				var pend []int
				for j, r := range rows {
					if !r.attached {
						pend = append(pend, j)
					}
				}
				if len(pend) == 0 {
					continue
				}
				op.Ref = rapid.IntRange(0, len(pend)-1).Draw(t, "ref")
				rows[pend[op.Ref]].attached = true
			}
			s.Ops = append(s.Ops, op)
		}
		if o.ForceHdr {
			pos := rapid.IntRange(0, len(s.Ops)).Draw(t, "hdrpos")
			op := Op{K: "hdr", Items: items("hn", hdrItem, hdrMin)}
			s.Ops = append(s.Ops[:pos], append([]Op{op}, s.Ops[pos:]...)...)
		}
		return s
	})
}

// TwinItems now and then (one script in five) replaces one item of the script by a near twin of another item of the same
// script: the same descriptor, and for the floating-point kinds the same value with the sign turned (the two zeroes
// included).  Equal and almost-equal values side by side are what caches keyed by value get wrong.  The shape of the
// script (which rows, how many cells) does not change.
func TwinItems(t *rapid.T, ops []Op) {
	if rapid.IntRange(0, 4).Draw(t, "twins?") != 0 {
		return
	}
	type at struct{ op, i int }
	var cells []at
	for oi, op := range ops {
		if op.K == "rowitems" || op.K == "rowadd" {
			for i := range op.Items {
				cells = append(cells, at{oi, i})
			}
		}
	}
	if len(cells) < 2 {
		return
	}
	a := cells[rapid.IntRange(0, len(cells)-1).Draw(t, "twin-of")]
	b := cells[rapid.IntRange(0, len(cells)-1).Draw(t, "twin-at")]
	if a == b {
		return
	}
	src := ops[a.op].Items[a.i]
	if src.K != "f64" && src.K != "f32" && rapid.IntRange(0, 2).Draw(t, "make-float") != 0 {
		// most items are strings: make the pair a pair of floats more often than chance would
		src = Item{K: rapid.SampledFrom([]string{"f64", "f32"}).Draw(t, "twin-kind"), FS: rapid.SampledFrom([]string{"0", "-0", "0.1", "1e21"}).Draw(t, "twin-fs")}
		ops[a.op].Items[a.i] = src
	}
	tw := src
	switch src.K {
	case "f64", "f32":
		switch {
		case src.FS == "0":
			tw.FS = "-0"
		case src.FS == "-0":
			tw.FS = "0"
		case src.FS == "" && src.N == 0:
			tw.FS = "-0"
		case src.FS == "":
			tw.N = -src.N
		case len(src.FS) > 0 && src.FS[0] == '-':
			tw.FS = src.FS[1:]
		case src.FS != "nan":
			tw.FS = "-" + src.FS
		}
	}
	ops[b.op].Items[b.i] = tw
}
