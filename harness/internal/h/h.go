// Package h holds the generic glue between rapid, the enumerators, the fuzz
// targets, the replay tier and the evidence recorder.
package h

import (
	"os"
	"path/filepath"
	"sort"
	"strconv"
	"strings"
	"testing"

	"pgregory.net/rapid"

	"verif/harness/internal/ev"
)

// Prop bundles what a property package provides for one kind of case.
type Prop[C any] struct {
	ID    string
	Check func(C) *ev.Violation
	// Classify returns the property's non-trivial rule, the key that makes a
	// case distinct (nil = the case itself) and histogram labels.
	Classify func(C) (nontrivial bool, key interface{}, classes []string)
}

// Eval runs one case: records it, checks it under recover, and on violation
// writes the replay file.  It returns the violation (nil if the case passes).
func (p Prop[C]) Eval(c C) *ev.Violation {
	nt, key, classes := p.Classify(c)
	if key == nil {
		key = c
	}
	ev.R().Eval(c, key, nt, classes...)
	v := ev.Guard(func() *ev.Violation { return p.Check(c) })
	if v != nil {
		ev.R().Fail(p.ID, c, v)
	}
	return v
}

// Rapid drives the property with a rapid generator; the number of cases comes
// from -rapid.checks and the seed from -rapid.seed (set by the driver).
func (p Prop[C]) Rapid(t *testing.T, g *rapid.Generator[C]) {
	rapid.Check(t, func(rt *rapid.T) {
		c := g.Draw(rt, "case")
		if v := p.Eval(c); v != nil {
			// The message must be identical for identical input (rapid only
			// shrinks when a re-run reproduces the same error text), so the
			// detail, which may hold addresses and stack traces, stays in the
			// replay file.
			rt.Fatalf("VIOLATION %s (detail in the replay file)", p.ID)
		}
	})
}

// Replay re-executes committed / given case files, bypassing every library.
// $VERIF_REPLAY is a file or a directory of *.json files.
func (p Prop[C]) Replay(t *testing.T, kindFilter func(C) bool) {
	for _, f := range ReplayFiles() {
		var c C
		if err := ev.ReadCase(f, &c); err != nil {
			t.Errorf("REPLAY-ERROR %s: %v", f, err)
			continue
		}
		if kindFilter != nil && !kindFilter(c) {
			continue
		}
		ev.R().Count("replayed", 1)
		v := ev.Guard(func() *ev.Violation { return p.Check(c) })
		if v != nil {
			t.Errorf("REPLAY-VIOLATION file=%s %s: %s", f, p.ID, firstLine(v.Msg))
		}
	}
}

func firstLine(s string) string {
	if i := strings.IndexByte(s, '\n'); i >= 0 {
		return s[:i]
	}
	return s
}

// ReplayFiles lists the files named by $VERIF_REPLAY.
func ReplayFiles() []string {
	p := os.Getenv("VERIF_REPLAY")
	if p == "" {
		return nil
	}
	st, err := os.Stat(p)
	if err != nil {
		return nil
	}
	if !st.IsDir() {
		return []string{p}
	}
	m, _ := filepath.Glob(filepath.Join(p, "*.json"))
	sort.Strings(m)
	return m
}

// Tier is "quick" or "thorough".
func Tier() string {
	if os.Getenv("VERIF_TIER") == "thorough" {
		return "thorough"
	}
	return "quick"
}

func Thorough() bool { return Tier() == "thorough" }

// Shard returns (index, count) of this process within the run.
func Shard() (int, int) {
	i, _ := strconv.Atoi(os.Getenv("VERIF_SHARD"))
	n, _ := strconv.Atoi(os.Getenv("VERIF_SHARDS"))
	if n < 1 {
		n = 1
	}
	return i, n
}

// EnvInt reads an integer knob set by the driver.
func EnvInt(name string, def int) int {
	if s := os.Getenv(name); s != "" {
		if v, err := strconv.Atoi(s); err == nil {
			return v
		}
	}
	return def
}
