// Package ev is the evidence recorder and failure/replay writer shared by
// every property package.  One Recorder lives per test process; the driver
// (../../check) merges the partial files written by all processes of a run.
package ev

import (
	"encoding/binary"
	"encoding/json"
	"fmt"
	"hash/fnv"
	"os"
	"runtime"
	"runtime/debug"
	"sort"
	"strings"
	"sync"
	"testing"
	"time"
)

// Violation describes why a case breaks the property.
type Violation struct {
	Msg string `json:"msg"`
}

func V(format string, a ...interface{}) *Violation {
	return &Violation{Msg: fmt.Sprintf(format, a...)}
}

func (v *Violation) Error() string { return v.Msg }

// SubRun describes an exhaustively enumerated sub-run.
type SubRun struct {
	Name       string `json:"name"`
	Bound      string `json:"bound"`
	Cases      int64  `json:"cases"`
	Exhaustive bool   `json:"exhaustive"`
}

type partial struct {
	Property    string                     `json:"property"`
	Evaluations int64                      `json:"evaluations"`
	Nontrivial  int64                      `json:"nontrivial_evaluations"`
	Classes     map[string]int64           `json:"classes"`
	Excluded    map[string]int64           `json:"excluded"`
	Samples     []json.RawMessage          `json:"samples"`
	Largest     json.RawMessage            `json:"largest,omitempty"`
	SubRuns     []SubRun                   `json:"subruns,omitempty"`
	Violations  int64                      `json:"violations"`
	Notes       []string                   `json:"notes,omitempty"`
	Extra       map[string]json.RawMessage `json:"extra,omitempty"`
	HashCount   int                        `json:"hash_count"`
	// EnumDistinct counts non-trivial cases of exhaustive enumerations, which are
	// distinct by construction and therefore not hashed.
	EnumDistinct int64 `json:"enum_distinct"`
}

// Recorder accumulates what one process explored.
type Recorder struct {
	mu          sync.Mutex
	p           partial
	hashes      map[uint64]struct{}
	largestSize int
	failed      bool // once a violation was seen, later evaluations (shrinking) are not counted
	maxSamples  int
}

var global = &Recorder{
	p:          partial{Classes: map[string]int64{}, Excluded: map[string]int64{}, Extra: map[string]json.RawMessage{}},
	hashes:     map[uint64]struct{}{},
	maxSamples: 6,
}

// R returns the process-wide recorder.
func R() *Recorder { return global }

// Hash64 is the FNV-1a hash of the canonical JSON of v.
func Hash64(v interface{}) uint64 {
	b, err := json.Marshal(v)
	if err != nil {
		b = []byte(fmt.Sprintf("%#v", v))
	}
	h := fnv.New64a()
	h.Write(b)
	return h.Sum64()
}

// Eval records one evaluated case.  key is what makes the case distinct
// (usually the case itself); nontrivial is the property's stated rule.
func (r *Recorder) Eval(c interface{}, key interface{}, nontrivial bool, classes ...string) {
	r.mu.Lock()
	defer r.mu.Unlock()
	if r.failed {
		return
	}
	r.p.Evaluations++
	for _, cl := range classes {
		r.p.Classes[cl]++
	}
	if !nontrivial {
		return
	}
	r.p.Nontrivial++
	var h uint64
	if hk, ok := key.(uint64); ok {
		h = hk
	} else {
		h = Hash64(key)
	}
	if _, seen := r.hashes[h]; seen {
		return
	}
	r.hashes[h] = struct{}{}
	if c == nil {
		return
	}
	// keep the first few non-trivial cases and the largest one as samples
	if len(r.p.Samples) < r.maxSamples || len(r.hashes)%4096 == 0 {
		b, err := json.Marshal(c)
		if err != nil {
			return
		}
		if len(r.p.Samples) < r.maxSamples {
			r.p.Samples = append(r.p.Samples, b)
		}
		if len(b) > r.largestSize && len(b) < 16384 {
			r.largestSize = len(b)
			r.p.Largest = b
		}
	}
}

// EvalEnum records one case of an exhaustive enumeration (distinct by construction).
func (r *Recorder) EvalEnum(sample interface{}, nontrivial bool, classes ...string) {
	r.mu.Lock()
	defer r.mu.Unlock()
	if r.failed {
		return
	}
	r.p.Evaluations++
	for _, cl := range classes {
		r.p.Classes[cl]++
	}
	if !nontrivial {
		return
	}
	r.p.Nontrivial++
	r.p.EnumDistinct++
	if sample != nil && len(r.p.Samples) < r.maxSamples {
		if b, err := json.Marshal(sample); err == nil {
			r.p.Samples = append(r.p.Samples, b)
		}
	}
}

// Count bumps a class counter without counting an evaluation.
func (r *Recorder) Count(class string, n int64) {
	r.mu.Lock()
	r.p.Classes[class] += n
	r.mu.Unlock()
}

// Exclude counts a case skipped by construction because it matches a listed known finding.
func (r *Recorder) Exclude(slug string) {
	r.mu.Lock()
	r.p.Excluded[slug]++
	r.mu.Unlock()
}

// Sub records an enumerated sub-run.
func (r *Recorder) Sub(s SubRun) {
	r.mu.Lock()
	r.p.SubRuns = append(r.p.SubRuns, s)
	r.mu.Unlock()
}

// Note attaches free text to the evidence.
func (r *Recorder) Note(format string, a ...interface{}) {
	r.mu.Lock()
	r.p.Notes = append(r.p.Notes, fmt.Sprintf(format, a...))
	r.mu.Unlock()
}

// SetExtra attaches a named JSON value to the evidence.
func (r *Recorder) SetExtra(k string, v interface{}) {
	b, err := json.Marshal(v)
	if err != nil {
		return
	}
	r.mu.Lock()
	r.p.Extra[k] = b
	r.mu.Unlock()
}

type failFile struct {
	Property string      `json:"property"`
	Msg      string      `json:"violation"`
	Case     interface{} `json:"case"`
}

// Fail records a violation and writes the failing case as JSON to
// $VERIF_FAIL_OUT.  The file is overwritten by every failing evaluation, so
// after shrinking it holds the minimal case.
func (r *Recorder) Fail(property string, c interface{}, v *Violation) {
	r.mu.Lock()
	r.failed = true
	r.p.Violations++
	r.mu.Unlock()
	WriteCase(os.Getenv("VERIF_FAIL_OUT"), property, c, v.Msg)
}

// WriteCase writes a replayable case file.
func WriteCase(path, property string, c interface{}, msg string) {
	if path == "" {
		return
	}
	b, err := json.MarshalIndent(failFile{Property: property, Msg: msg, Case: c}, "", " ")
	if err != nil {
		b = []byte(fmt.Sprintf(`{"property":%q,"violation":%q,"case":null,"marshal_error":%q}`, property, msg, err.Error()))
	}
	tmp := path + ".tmp"
	if os.WriteFile(tmp, b, 0o644) == nil {
		os.Rename(tmp, path)
	}
}

// ReadCase loads the "case" member of a replay file into c.
func ReadCase(path string, c interface{}) error {
	b, err := os.ReadFile(path)
	if err != nil {
		return err
	}
	var raw struct {
		Case json.RawMessage `json:"case"`
	}
	if err := json.Unmarshal(b, &raw); err != nil {
		return err
	}
	if raw.Case == nil {
		return fmt.Errorf("%s: no case member", path)
	}
	return json.Unmarshal(raw.Case, c)
}

// Flush writes the partial evidence to $VERIF_EV_OUT (and the hash set next to it).
func (r *Recorder) Flush(property string) {
	out := os.Getenv("VERIF_EV_OUT")
	if out == "" {
		return
	}
	r.mu.Lock()
	defer r.mu.Unlock()
	r.p.Property = property
	r.p.HashCount = len(r.hashes)
	hs := make([]uint64, 0, len(r.hashes))
	for h := range r.hashes {
		hs = append(hs, h)
	}
	sort.Slice(hs, func(i, j int) bool { return hs[i] < hs[j] })
	hb := make([]byte, 8*len(hs))
	for i, h := range hs {
		binary.LittleEndian.PutUint64(hb[8*i:], h)
	}
	os.WriteFile(out+".hashes", hb, 0o644)
	b, _ := json.Marshal(r.p)
	os.WriteFile(out, b, 0o644)
}

// Main is the TestMain body of every property package.
func Main(property string, m *testing.M) int {
	code := m.Run()
	R().Flush(property)
	return code
}

// Guard runs f and converts a panic into a violation.
func Guard(f func() *Violation) (v *Violation) {
	defer func() {
		if p := recover(); p != nil {
			v = V("panic: %v\n%s", p, debug.Stack())
		}
	}()
	return f()
}

// Watch runs f and, should it not come back within d, looks for the evidence of a deadlock: goroutines that sit in
// a lock acquisition (or a wait that nobody can end) below a frame of the library, in the same place in two stack
// dumps taken seconds apart.  Only then is a violation reported; a check that is merely slow is waited for (the
// driver's own time limit then calls the run inconclusive).  The stuck goroutines are left behind: the process is
// about to fail anyway.
func Watch(d time.Duration, lib string, f func() *Violation) *Violation {
	done := make(chan *Violation, 1)
	go func() { done <- Guard(f) }()
	select {
	case v := <-done:
		return v
	case <-time.After(d):
	}
	first := blockedInLibrary(lib)
	select {
	case v := <-done:
		return v
	case <-time.After(3 * time.Second):
	}
	second := blockedInLibrary(lib)
	var stuck []string
	for id, st := range first {
		if second[id] == st {
			stuck = append(stuck, st)
		}
	}
	if len(stuck) == 0 {
		return <-done // slow, not stuck: wait
	}
	sort.Strings(stuck)
	return V("deadlock: after %v, %d goroutine(s) are waiting for a lock inside the library and have not moved for 3 s\n%s", d, len(stuck), strings.Join(stuck, "\n\n"))
}

// blockedInLibrary maps goroutine ids to their stacks, for goroutines blocked on a mutex below a library frame.
func blockedInLibrary(lib string) map[string]string {
	buf := make([]byte, 1<<22)
	buf = buf[:runtime.Stack(buf, true)]
	out := map[string]string{}
	for _, g := range strings.Split(string(buf), "\n\n") {
		head := g
		if i := strings.Index(g, "\n"); i >= 0 {
			head = g[:i]
		}
		waiting := strings.Contains(head, "sync.Mutex.Lock") || strings.Contains(head, "sync.RWMutex") || strings.Contains(head, "semacquire")
		if waiting && strings.Contains(g, lib) {
			fields := strings.Fields(head)
			if len(fields) >= 2 {
				// drop the "N minutes" part of the header so that two dumps compare equal
				if k := strings.Index(g, "]:"); k >= 0 {
					out[fields[1]] = fields[0] + " " + fields[1] + " [blocked]" + g[k+1:]
				}
			}
		}
	}
	return out
}
