// Package oracle holds the independent parsers and the reference text
// renderer the property checks compare the library's output with.
package oracle

import "fmt"

// ParseCSV reads the all-fields-quoted RFC 4180 subset strictly:
//
//	file   = *record
//	record = field *("," field) LF
//	field  = DQUOTE *(non-DQUOTE / 2DQUOTE) DQUOTE
//
// Anything else (text outside quotes, a missing final LF, CR LF as the
// record terminator) is a parse failure.
func ParseCSV(in []byte) ([][]string, error) {
	var recs [][]string
	pos := 0
	for pos < len(in) {
		var rec []string
		for {
			if pos >= len(in) || in[pos] != '"' {
				return nil, fmt.Errorf("offset %d: field does not start with a quote", pos)
			}
			pos++
			var f []byte
			for {
				if pos >= len(in) {
					return nil, fmt.Errorf("offset %d: unterminated quoted field", pos)
				}
				if in[pos] == '"' {
					if pos+1 < len(in) && in[pos+1] == '"' {
						f = append(f, '"')
						pos += 2
						continue
					}
					pos++
					break
				}
				f = append(f, in[pos])
				pos++
			}
			rec = append(rec, string(f))
			if pos >= len(in) {
				return nil, fmt.Errorf("offset %d: record not terminated by LF", pos)
			}
			if in[pos] == ',' {
				pos++
				continue
			}
			if in[pos] == '\n' {
				pos++
				break
			}
			return nil, fmt.Errorf("offset %d: byte %q after a closing quote", pos, in[pos])
		}
		recs = append(recs, rec)
	}
	return recs, nil
}
