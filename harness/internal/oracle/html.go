package oracle

import (
	"fmt"
	"regexp"
	"strings"
)

// HTok is a token of the HTML output: a tag or a run of text.
type HTok struct {
	Tag   bool
	Close bool
	Name  string
	Attrs [][2]string // name, raw (still entity-encoded) value
	Text  string      // raw text for text tokens
}

var tagRe = regexp.MustCompile(`^<(/?)([a-z][a-z0-9]*)((?: [a-z][a-z0-9-]*="[^"<>]*")*)>$`)
var attrRe = regexp.MustCompile(` ([a-z][a-z0-9-]*)="([^"<>]*)"`)

// TokenizeHTML splits the output into tags ("<" ... ">") and text.  A tag that
// is not of the strict form <name attr="value"...> or </name> is an error, as
// is a stray ">" in text.
func TokenizeHTML(s string) ([]HTok, error) {
	var out []HTok
	for len(s) > 0 {
		if s[0] == '<' {
			end := strings.IndexByte(s, '>')
			if end < 0 {
				return nil, fmt.Errorf("unterminated tag %q", trunc(s))
			}
			raw := s[:end+1]
			m := tagRe.FindStringSubmatch(raw)
			if m == nil {
				return nil, fmt.Errorf("malformed or unexpected tag %q", trunc(raw))
			}
			t := HTok{Tag: true, Close: m[1] == "/", Name: m[2]}
			for _, a := range attrRe.FindAllStringSubmatch(m[3], -1) {
				t.Attrs = append(t.Attrs, [2]string{a[1], a[2]})
			}
			if t.Close && len(t.Attrs) > 0 {
				return nil, fmt.Errorf("closing tag with attributes %q", trunc(raw))
			}
			out = append(out, t)
			s = s[end+1:]
			continue
		}
		end := strings.IndexByte(s, '<')
		if end < 0 {
			end = len(s)
		}
		txt := s[:end]
		if strings.ContainsRune(txt, '>') {
			return nil, fmt.Errorf("raw '>' in text %q", trunc(txt))
		}
		out = append(out, HTok{Text: txt})
		s = s[end:]
	}
	return out, nil
}

func trunc(s string) string {
	if len(s) > 80 {
		return s[:80] + "..."
	}
	return s
}
