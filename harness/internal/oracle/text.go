package oracle

import (
	"strings"

	"go.pennock.tech/tabular/length"
	"go.pennock.tech/tabular/texttable/decoration"

	"verif/harness/internal/gen"
)

// Reference text renderer, written from the statements of C03/C04 and the
// Decoration field documentation.  The only thing it shares with the library
// is length.StringCells ("the library's own cell-width measure").

// Alignment codes.
const (
	AUnset = iota
	ALeft
	ARight
	ACenter
)

// TCell is one cell as the renderer sees it.
type TCell struct {
	Lines []string // text lines (line breaks removed, at most one trailing newline dropped)
	DeclW int      // declared width, -1 if the item does not declare one
	DeclH int      // declared height, -1 if the item does not declare one
}

// TRow is a body row or a separator.
type TRow struct {
	Sep   bool
	Cells []TCell
}

// TSpec is everything the text renderer's output depends on.
type TSpec struct {
	NCols     int
	HeaderSet bool
	Header    []TCell
	Rows      []TRow
	Align     []int // Align[0] = column 0 (default for all columns), Align[i] = column i
	Deco      decoration.Decoration
	Boxless   bool
}

// Lines splits a text the way the statement of C18 says: nothing is lost but
// the line breaks and at most one trailing newline.
func Lines(s string) []string {
	if s == "" {
		return nil
	}
	ss := strings.Split(s, "\n")
	if ss[len(ss)-1] == "" {
		ss = ss[:len(ss)-1]
	}
	return ss
}

// CellOf derives the renderer's view of a model cell.
func CellOf(c gen.MCell) TCell {
	tc := TCell{Lines: Lines(c.Text), DeclW: -1, DeclH: -1}
	if w, ok := c.It.DeclaredWidth(); ok {
		if w < 0 {
			w = 0
		}
		tc.DeclW = w
	}
	if h, ok := c.It.DeclaredHeight(); ok {
		tc.DeclH = h
	}
	return tc
}

// SpecOf derives the spec from the table model.
func SpecOf(m *gen.Model, align []int, deco decoration.Decoration, boxless bool) TSpec {
	sp := TSpec{NCols: m.NCols(), HeaderSet: m.HeaderSet, Align: align, Deco: deco, Boxless: boxless}
	for _, c := range m.Header {
		sp.Header = append(sp.Header, CellOf(c))
	}
	for _, r := range m.Rows {
		tr := TRow{Sep: r.Sep}
		for _, c := range r.Cells {
			tr.Cells = append(tr.Cells, CellOf(c))
		}
		sp.Rows = append(sp.Rows, tr)
	}
	return sp
}

// lineWidth is the laid-out width of line l of the cell.
func (c TCell) lineWidth(l int) int {
	if c.DeclW >= 0 && len(c.Lines) == 1 {
		return c.DeclW // a single-line item that declares its width is laid out as exactly that wide
	}
	return length.StringCells(c.Lines[l])
}

// width is what the cell contributes to its column's width.
func (c TCell) width() int {
	if c.DeclW >= 0 {
		return c.DeclW
	}
	w := 0
	for l := range c.Lines {
		if lw := length.StringCells(c.Lines[l]); lw > w {
			w = lw
		}
	}
	return w
}

// height is the number of lines the cell occupies.
func (c TCell) height() int {
	h := len(c.Lines)
	if c.DeclH > h {
		h = c.DeclH
	}
	return h
}

// ColWidths returns the width of every column.
func (sp TSpec) ColWidths() []int {
	ws := make([]int, sp.NCols)
	take := func(cells []TCell) {
		for i, c := range cells {
			if i < sp.NCols && c.width() > ws[i] {
				ws[i] = c.width()
			}
		}
	}
	if sp.HeaderSet {
		take(sp.Header)
	}
	for _, r := range sp.Rows {
		if !r.Sep {
			take(r.Cells)
		}
	}
	return ws
}

// EffAlign is the effective alignment of column i (1-based).
func (sp TSpec) EffAlign(i int) int {
	a := AUnset
	if i < len(sp.Align) {
		a = sp.Align[i]
	}
	if a == AUnset && len(sp.Align) > 0 {
		a = sp.Align[0]
	}
	if a == AUnset {
		a = ALeft
	}
	return a
}

func pad(s string, w, colw, align int) string {
	p := colw - w
	if p < 0 {
		p = 0
	}
	switch align {
	case ARight:
		return strings.Repeat(" ", p) + s
	case ACenter:
		left := p / 2
		return strings.Repeat(" ", left) + s + strings.Repeat(" ", p-left)
	}
	return s + strings.Repeat(" ", p)
}

// ContentLines renders one header/body row into its physical lines; each
// physical line is the list of padded slots, one per column.
func (sp TSpec) ContentSlots(cells []TCell, ws []int) [][]string {
	n := 1
	for i, c := range cells {
		if i < sp.NCols && c.height() > n {
			n = c.height()
		}
	}
	out := make([][]string, n)
	for l := 0; l < n; l++ {
		slots := make([]string, sp.NCols)
		for i := 0; i < sp.NCols; i++ {
			text, w := "", 0
			if i < len(cells) && l < len(cells[i].Lines) {
				text, w = cells[i].Lines[l], cells[i].lineWidth(l)
			}
			slots[i] = pad(text, w, ws[i], sp.EffAlign(i+1))
		}
		out[l] = slots
	}
	return out
}

func (sp TSpec) rule(left, horiz, cross, right string, ws []int) string {
	var b strings.Builder
	b.WriteString(left)
	for i, w := range ws {
		if i > 0 {
			b.WriteString(cross)
		}
		b.WriteString(strings.Repeat(horiz, w+2))
	}
	b.WriteString(right)
	b.WriteString("\n")
	return b.String()
}

// content assembles one content line: the slots, each between single spaces, separated by whatever divider glyphs
// the decoration has (the plain boxless decoration has none: its slots are simply joined by one space).
func (sp TSpec) content(slots []string, left, inner, right string) string {
	var fields []string
	if left != "" {
		fields = append(fields, left)
	}
	for i, s := range slots {
		if i > 0 && inner != "" {
			fields = append(fields, inner)
		}
		fields = append(fields, s)
	}
	if right != "" {
		fields = append(fields, right)
	}
	return strings.Join(fields, " ") + "\n"
}

// RenderText produces the expected output (requires NCols >= 1).
func RenderText(sp TSpec) string {
	d := sp.Deco
	ws := sp.ColWidths()
	var b strings.Builder
	if sp.HeaderSet {
		if !sp.Boxless {
			b.WriteString(sp.rule(d.TopLeft, d.HOuter, d.HTopDown, d.TopRight, ws))
		}
		for _, slots := range sp.ContentSlots(sp.Header, ws) {
			b.WriteString(sp.content(slots, d.VHeader, d.VHeader, d.VHeader))
		}
		if !sp.Boxless {
			b.WriteString(sp.rule(d.HBLeft, d.HOuter, d.HBCross, d.HBRight, ws))
		}
	} else if !sp.Boxless {
		b.WriteString(sp.rule(d.TopLeft, d.HOuter, d.BTopDown, d.TopRight, ws))
	}
	for _, r := range sp.Rows {
		if r.Sep {
			if !sp.Boxless {
				b.WriteString(sp.rule(d.LeftBodyRule, d.HRule, d.CrossPiece, d.RightBodyRule, ws))
			}
			continue
		}
		for _, slots := range sp.ContentSlots(r.Cells, ws) {
			b.WriteString(sp.content(slots, d.VBodyBorder, d.VBodyInner, d.VBodyBorder))
		}
	}
	if !sp.Boxless {
		b.WriteString(sp.rule(d.BottomLeft, d.HOuter, d.BBottomUp, d.BottomRight, ws))
	}
	return b.String()
}

// Additive reports whether the library's measure is additive for every cell
// line of the spec when embedded between spaces; only then may whole rendered
// lines be compared by StringCells (the measure is grapheme-cluster based).
func (sp TSpec) Additive() bool {
	ok := true
	chk := func(cells []TCell) {
		for _, c := range cells {
			for _, l := range c.Lines {
				if length.StringCells(" "+l+" ") != length.StringCells(l)+2 {
					ok = false
				}
			}
		}
	}
	chk(sp.Header)
	for _, r := range sp.Rows {
		chk(r.Cells)
	}
	return ok
}

// HasOverride reports whether any cell declares its own size.
func (sp TSpec) HasOverride() bool {
	has := false
	chk := func(cells []TCell) {
		for _, c := range cells {
			if c.DeclW >= 0 || c.DeclH >= 0 {
				has = true
			}
		}
	}
	chk(sp.Header)
	for _, r := range sp.Rows {
		chk(r.Cells)
	}
	return has
}
