package c07

import (
	"os"
	"testing"

	"pgregory.net/rapid"

	"verif/harness/internal/ev"
	"verif/harness/internal/gen"
	"verif/harness/internal/h"
)

var prop = h.Prop[Case]{ID: ID, Check: CheckCase, Classify: Classify}

func TestMain(m *testing.M) { os.Exit(ev.Main(ID, m)) }

func TestReplay(t *testing.T) { prop.Replay(t, nil) }

var keyTokens = append(append([]string{}, gen.TokJSONKey...), "\a", "\v", "\x1b", "\U0010ffff", "\U000e0001", "\u0085", "h1", "h2", "h3", "h4", "h5")

func itemGen() *rapid.Generator[gen.Item] {
	anyItem := gen.AnyItem(gen.TokJSONKey, 1)
	long := gen.BoundaryString(gen.TokJSONKey)
	hot := gen.ExpandingString([]string{"\"", "\\", "\x01", "\u2028", "<", "\n", "\xff", "\U0001f469"})
	return rapid.Custom(func(t *rapid.T) gen.Item {
		if gen.Rarely(t, "long", 150) {
			return gen.S(long.Draw(t, "longv"))
		}
		if gen.Rarely(t, "hot", 20) {
			return gen.S(hot.Draw(t, "hot-text")) // every one of these becomes a longer escape sequence
		}
		switch rapid.IntRange(0, 19).Draw(t, "special") {
		case 0:
			return gen.Item{K: "chan"}
		case 1, 2:
			return gen.S("")
		case 3:
			// empty for now, but mutable: a later mutation and Update gives it text
			return gen.Item{K: "if", M: gen.MString, P: true}
		case 4:
			return gen.Item{K: "nil"}
		}
		it := anyItem.Draw(t, "item")
		if (it.K == "f64" || it.K == "f32") && (it.FS == "nan" || it.FS == "+inf" || it.FS == "-inf") && rapid.IntRange(0, 2).Draw(t, "keep-nonfinite") > 0 {
			it.FS = "" // keep unencodable floats rare so that most cases render
		}
		return it
	})
}

func caseGen() *rapid.Generator[Case] {
	max := 10
	if h.Thorough() {
		max = 16
	}
	key := rapid.Custom(func(t *rapid.T) gen.Item {
		min := 1
		if rapid.IntRange(0, 39).Draw(t, "empty-key") == 0 {
			min = 0
		}
		if gen.Rarely(t, "long-key", 150) {
			return gen.S(gen.BoundaryString(keyTokens).Draw(t, "longkey"))
		}
		k := gen.StringOf(keyTokens, min, 2).Draw(t, "key")
		if gen.Rarely(t, "mutable-key", 8) {
			return gen.Item{K: "if", M: gen.MString, P: true, S: gen.Str(k)} // a header whose text can change later (mutate + Update through Headers())
		}
		return gen.S(k)
	})
	opts := gen.ScriptOpts{
		AllowProps: true, AllowRowErr: true, Item: itemGen(),
		HdrItem:     key,
		MinOps:      0,
		MaxOps:      max,
		MaxCells:    3,
		HdrCells:    [2]int{2, 6},
		HeavyTail:   12, // now and then a header and rows that cross the ten-column capacity in one step
		ForceHdr:    true,
		MultiHdr:    true, // a header row may be replaced (same width or wider: a narrower one is out of the domain)
		AllowMutate: true,
		Creators:    []string{"core", "json", "json", "csv"},
	}
	withHdr := gen.ScriptGen(opts)
	opts.ForceHdr, opts.HdrCells = false, [2]int{0, 4}
	anyHdr := gen.ScriptGen(opts)
	return rapid.Custom(func(t *rapid.T) Case {
		var c Case
		if rapid.IntRange(0, 5).Draw(t, "hdrmode") == 0 {
			c.Script = anyHdr.Draw(t, "script")
		} else {
			c.Script = withHdr.Draw(t, "script")
		}
		gen.TwinItems(t, c.Script.Ops)
		// mostly unset/true/false, rarely a non-boolean
		c.SkipByCallback = rapid.IntRange(0, 5).Draw(t, "skip-by-callback") == 0
		if rapid.IntRange(0, 2).Draw(t, "pre?") == 0 {
			c.Pre = 1 + rapid.IntRange(0, len(c.Script.Ops)).Draw(t, "pre")
		}
		c.Skip = rapid.SliceOfN(rapid.SampledFrom([]int{0, 0, 0, 1, 1, 2, 2, 1, 2, 0, 1, 0, 1, 2, 0, 1, 1, 2, 0, 1, 2, 0, 1, 1, 0, 2, 1, 0, 1, 2, 0, 1, 0, 1, 2, 1, 0, 1, 2, 3}), 0, 7).Draw(t, "skip")
		if rapid.IntRange(0, 2).Draw(t, "props?") == 0 {
			pg := rapid.Custom(func(t *rapid.T) PropOp {
				return PropOp{Col: rapid.IntRange(0, 4).Draw(t, "col"), Key: rapid.SampledFrom([]string{"skip", "skip", "skip", "align", "user"}).Draw(t, "key"),
					Val: rapid.SampledFrom([]int{0, 0, 1, 1, 2, 2, 1, 2, 0, 1, 2, 0, 1, 2, 1, 2, 0, 1, 2, 3}).Draw(t, "val")}
			})
			c.Props = rapid.SliceOfN(pg, 1, 8).Draw(t, "props")
			if c.SkipByCallback {
				c.Props = nil // the callback has the last word at render time: no direct history after it
			}
		}
		return c
	})
}

func TestProp(t *testing.T) { prop.Rapid(t, caseGen()) }

// FuzzC07: two header texts, three cell texts, a shape byte and a skipable byte.
func FuzzC07(f *testing.F) {
	f.Add("k", "v", "a", "b", "", uint8(0xff), uint8(0x12))
	f.Add("\"", "\\", "\x01", "< >", "\x7f", uint8(0x3c), uint8(0x05))
	f.Add("same", "same", "", "", "x", uint8(0x11), uint8(0x2a))
	f.Fuzz(func(t *testing.T, k1, k2, a, b, c string, shape, skip uint8) {
		for _, s := range []string{k1, k2} {
			if !utf8ok(s) {
				t.Skip() // header texts are valid UTF-8 (JSON cannot carry other bytes)
			}
		}
		ops := []gen.Op{{K: "hdr", Items: []gen.Item{gen.S(k1), gen.S(k2)}[:1+int(shape&1)]}}
		if shape&2 != 0 {
			ops = append(ops, gen.Op{K: "sep"})
		}
		ops = append(ops, gen.Op{K: "rowitems", Items: []gen.Item{gen.S(a), gen.S(b)}[:int(shape>>2)%3]})
		if shape&0x10 != 0 {
			ops = append(ops, gen.Op{K: "sep"}, gen.Op{K: "sep"})
		}
		if shape&0x20 != 0 {
			ops = append(ops, gen.Op{K: "rowitems", Items: []gen.Item{gen.S(c), {K: "int", N: int64(shape)}}[:1+int(shape>>6)%2]})
		}
		if shape&0x80 != 0 {
			ops = append(ops, gen.Op{K: "sep"})
		}
		cs := Case{Script: gen.Script{Ops: ops}, Skip: []int{int(skip & 3), int(skip >> 2 & 3), int(skip >> 4 & 3)}}
		if v := prop.Eval(cs); v != nil {
			t.Fatalf("VIOLATION %s", ID)
		}
	})
}

func utf8ok(s string) bool {
	for _, r := range s {
		if r == 0xfffd {
			return false
		}
	}
	return true
}
