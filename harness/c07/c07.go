// Package c07: JSON output is valid JSON that mirrors the table, or an error and nothing.
package c07

import (
	"bytes"
	stdjson "encoding/json"
	"fmt"
	"io"
	"strings"

	"go.pennock.tech/tabular"
	"go.pennock.tech/tabular/json"
	"go.pennock.tech/tabular/properties"
	"go.pennock.tech/tabular/properties/align"

	"verif/harness/internal/ev"
	"verif/harness/internal/gen"
)

const ID = "C07"

// Skip codes: 0 unset, 1 true, 2 false, 3 a non-boolean value.
type Case struct {
	Script gen.Script `json:"script"`
	Skip   []int      `json:"skip,omitempty"` // [0] = column 0 (default), [i] = column i
	// Props is a history of property operations on the columns, applied in order after Skip: the last
	// setting of a key on a column wins and setting nil removes it, whatever else the column carries.
	Props []PropOp `json:"props,omitempty"`
	// Pre > 0: the wrapper is created and rendered once after Pre-1 operations, while the table is still being
	// built (headers may be replaced afterwards); the checked render goes through that same wrapper.
	Pre int `json:"pre,omitempty"`
	// SkipByCallback: the Skip settings are not made directly but by a render-time callback on the table itself
	// (that is what render-time callbacks are for: what they set is what the renderer of that very pass reads)
	SkipByCallback bool `json:"skip_by_callback,omitempty"`
}

type skipSetter struct {
	t    tabular.Table
	skip []int
}

func (s skipSetter) UpdateProperties(tabular.PropertyOwner) error {
	n := s.t.NColumns()
	for i, code := range s.skip {
		if v := skipValue(code); v != nil && i <= n {
			s.t.Column(i).SetProperty(properties.Skipable, v)
		}
	}
	return nil
}

// PropOp: Key "skip" (Val 0 remove, 1 true, 2 false, 3 non-bool), "align" (Val 0 remove, 1..3) or "user" (Val 0 remove, else a value).
type PropOp struct {
	Col int    `json:"col"`
	Key string `json:"key"`
	Val int    `json:"val,omitempty"`
}

type userKey struct{}

// applyProps performs the property history on the table and returns the effective skipable codes.
func applyProps(t tabular.Table, c Case, n int) []int {
	codes := make([]int, n+1)
	for i, code := range c.Skip {
		if i <= n {
			codes[i] = code
			if v := skipValue(code); v != nil && !c.SkipByCallback {
				t.Column(i).SetProperty(properties.Skipable, v)
			}
		}
	}
	if c.SkipByCallback {
		t.RegisterPropertyCallback(t, tabular.CB_AT_RENDER_PRECELL, tabular.CB_ON_ITSELF, skipSetter{t, c.Skip})
	}
	for _, op := range c.Props {
		col := ((op.Col % (n + 1)) + n + 1) % (n + 1)
		h := t.Column(col)
		switch op.Key {
		case "skip":
			codes[col] = op.Val % 4
			h.SetProperty(properties.Skipable, skipValue(op.Val%4))
		case "align":
			var v interface{}
			switch op.Val % 4 {
			case 1:
				v = align.Left
			case 2:
				v = align.Right
			case 3:
				v = align.Center
			}
			h.SetProperty(align.PropertyType, v)
		default:
			if op.Val == 0 {
				h.SetProperty(userKey{}, nil)
			} else {
				h.SetProperty(userKey{}, op.Val)
			}
		}
	}
	return codes
}

// effective computes the skipable codes the property history leaves behind (model side).
func effective(c Case, n int, base map[int]int) []int {
	codes := make([]int, n+1)
	for i := range codes {
		codes[i] = base[i] // what property steps in between the build steps left behind
	}
	for i, code := range c.Skip {
		if i <= n && code != 0 {
			codes[i] = code
		}
	}
	for _, op := range c.Props {
		if op.Key == "skip" {
			codes[((op.Col%(n+1))+n+1)%(n+1)] = op.Val % 4
		}
	}
	return codes
}

func skipValue(code int) interface{} {
	switch code {
	case 1:
		return true
	case 2:
		return false
	case 3:
		return "yes"
	}
	return nil
}

type pair struct {
	key string
	val []byte
}

// asKey is the header text as a JSON object key can carry it: JSON strings are Unicode, so bytes that are not valid
// UTF-8 arrive as U+FFFD (the statement's "header text" cannot mean more than that).
func asKey(text string) string {
	b, err := stdjson.Marshal(text)
	if err != nil {
		return text
	}
	var back string
	if stdjson.Unmarshal(b, &back) != nil {
		return text
	}
	return back
}

// keysCollide: two different header texts that JSON cannot tell apart (they differ in invalid bytes only): whether
// that counts as a duplicate header is not said anywhere; such tables are outside the domain.
func keysCollide(m *gen.Model) bool {
	seen := map[string]string{}
	for _, h := range m.Header {
		k := asKey(h.Text)
		if raw, ok := seen[k]; ok && raw != h.Text {
			return true
		}
		seen[k] = h.Text
	}
	return false
}

// expect computes, from the model, whether an error is expected and otherwise the objects.
func expect(c Case, m *gen.Model) (wantErr string, objs [][]pair) {
	n := m.NCols()
	if n == 0 {
		return "no columns", nil
	}
	eff := effective(c, n, m.SkipCode)
	code := func(i int) int {
		if i < len(eff) {
			return eff[i]
		}
		return 0
	}
	if code(0) == 3 {
		return "non-boolean default skipable", nil
	}
	if !m.HeaderSet {
		return "no headers", nil
	}
	if len(m.Header) < n {
		return "too few headers", nil
	}
	seen := map[string]bool{}
	skipable := make([]bool, n)
	for i := 0; i < n; i++ {
		h := m.Header[i].Text
		if h == "" {
			return "empty header", nil
		}
		if seen[h] {
			return "duplicate header", nil
		}
		seen[h] = true
		switch code(i + 1) {
		case 1:
			skipable[i] = true
		case 2:
			skipable[i] = false
		case 3:
			return "non-boolean skipable", nil
		default:
			skipable[i] = code(0) == 1
		}
	}
	for _, r := range m.DataRows() {
		var obj []pair
		for i, cell := range r.Cells {
			if skipable[i] && cell.Text == "" {
				continue
			}
			enc, err := stdjson.Marshal(cell.Live.V)
			if err != nil {
				return "unencodable item", nil
			}
			if string(enc) == "{}" && cell.Text != "" {
				enc, _ = stdjson.Marshal(cell.Text)
			}
			obj = append(obj, pair{asKey(m.Header[i].Text), enc})
		}
		objs = append(objs, obj)
	}
	return "", objs
}

// parse walks the output with a token stream: an array of objects, keys in order, raw values.
func parse(out string) ([][]pair, error) {
	if !stdjson.Valid([]byte(out)) {
		return nil, fmt.Errorf("not valid JSON")
	}
	dec := stdjson.NewDecoder(strings.NewReader(out))
	tok, err := dec.Token()
	if err != nil || tok != stdjson.Delim('[') {
		return nil, fmt.Errorf("does not start with an array: %v %v", tok, err)
	}
	var objs [][]pair
	for dec.More() {
		tok, err := dec.Token()
		if err != nil || tok != stdjson.Delim('{') {
			return nil, fmt.Errorf("array element %d is not an object: %v %v", len(objs), tok, err)
		}
		var obj []pair
		keys := map[string]bool{}
		for dec.More() {
			kt, err := dec.Token()
			if err != nil {
				return nil, err
			}
			k, ok := kt.(string)
			if !ok {
				return nil, fmt.Errorf("object key %v is not a string", kt)
			}
			if keys[k] {
				return nil, fmt.Errorf("duplicate key %q in object %d", k, len(objs))
			}
			keys[k] = true
			var raw stdjson.RawMessage
			if err := dec.Decode(&raw); err != nil {
				return nil, err
			}
			var cb bytes.Buffer
			if err := stdjson.Compact(&cb, raw); err != nil {
				return nil, err
			}
			obj = append(obj, pair{k, cb.Bytes()})
		}
		if tok, err := dec.Token(); err != nil || tok != stdjson.Delim('}') {
			return nil, fmt.Errorf("object %d not closed: %v %v", len(objs), tok, err)
		}
		objs = append(objs, obj)
	}
	if tok, err := dec.Token(); err != nil || tok != stdjson.Delim(']') {
		return nil, fmt.Errorf("array not closed: %v %v", tok, err)
	}
	if _, err := dec.Token(); err != io.EOF {
		return nil, fmt.Errorf("trailing data after the array")
	}
	return objs, nil
}

func CheckCase(c Case) *ev.Violation {
	t := gen.NewTable(c.Script.Creator)
	m := &gen.Model{}
	var early *json.JSONTable
	for i, op := range c.Script.Ops {
		if c.Pre > 0 && i == c.Pre-1 {
			early = json.Wrap(t)
			early.Render()
		}
		m.Step(t, op)
	}
	if m.NCols() != m.MaxEver {
		return nil // replaced, shorter header: column count ambiguous (not generated)
	}
	if m.HeaderSet && keysCollide(m) {
		return nil
	}
	if t.NColumns() != m.NCols() {
		return ev.V("NColumns()=%d but the build history has %d columns", t.NColumns(), m.NCols())
	}
	applyProps(t, c, m.NCols())
	gen.ScrambleRowsCopy(t) // the caller may do what it likes with the copy it was handed
	w := early
	if w == nil {
		w = json.Wrap(t)
	}
	out, err := w.Render()
	wantErr, want := expect(c, m)
	if wantErr != "" {
		if err == nil {
			return ev.V("expected an error (%s) but rendering succeeded: %q", wantErr, out)
		}
		if out != "" {
			return ev.V("Render returned error %v together with text %q", err, out)
		}
		return nil
	}
	if err != nil {
		return ev.V("render failed: %v", err)
	}
	got, perr := parse(out)
	if perr != nil {
		return ev.V("%v\noutput: %q", perr, out)
	}
	if len(got) != len(want) {
		return ev.V("%d objects, table has %d non-separator rows\noutput: %q", len(got), len(want), out)
	}
	for i := range want {
		if len(got[i]) != len(want[i]) {
			return ev.V("object %d has keys %v, want %v\noutput: %q", i, keysOf(got[i]), keysOf(want[i]), out)
		}
		// the same members (a JSON object is unordered; duplicate keys were rejected while parsing)
		have := map[string][]byte{}
		for _, p := range got[i] {
			have[p.key] = p.val
		}
		for _, p := range want[i] {
			v, ok := have[p.key]
			if !ok {
				return ev.V("object %d lacks key %q (has %v)\noutput: %q", i, p.key, keysOf(got[i]), out)
			}
			if !bytes.Equal(v, p.val) {
				return ev.V("object %d key %q has value %s, want %s\noutput: %q", i, p.key, v, p.val, out)
			}
		}
	}
	var b bytes.Buffer
	if err := w.RenderTo(&b); err != nil || b.String() != out {
		return ev.V("RenderTo wrote %q (err %v), Render returned %q", b.String(), err, out)
	}
	if out2, err := json.Render(t); err != nil || out2 != out {
		return ev.V("json.Render gave %q (err %v), wrapper Render %q", out2, err, out)
	}
	return nil
}

func keysOf(ps []pair) []string {
	var out []string
	for _, p := range ps {
		out = append(out, p.key)
	}
	return out
}

func Classify(c Case) (bool, interface{}, []string) {
	_, m := gen.Build(c.Script)
	wantErr, objs := expect(c, m)
	var cl []string
	seen := map[string]bool{}
	add := func(s string) {
		if !seen[s] {
			seen[s] = true
			cl = append(cl, s)
		}
	}
	nt := false
	if wantErr != "" {
		add("error-" + strings.ReplaceAll(wantErr, " ", "-"))
	} else {
		add("renders")
	}
	n := len(m.Rows)
	data := len(m.DataRows())
	if n > 0 && m.Rows[0].Sep {
		add("sep-leading")
		nt = true
	}
	if n > 0 && m.Rows[n-1].Sep && data > 0 {
		add("sep-trailing")
		nt = true
	}
	if n > 1 && m.Rows[n-1].Sep && m.Rows[n-2].Sep && data > 0 {
		add("sep-trailing-twice")
	}
	for i := 1; i < n; i++ {
		if m.Rows[i].Sep && m.Rows[i-1].Sep {
			add("sep-consecutive")
			nt = true
		}
	}
	if n > 0 && data == 0 {
		add("sep-only")
		nt = true
	}
	for _, hcell := range m.Header {
		b, _ := stdjson.Marshal(hcell.Text)
		if string(b) != `"`+hcell.Text+`"` {
			add("header-needs-escaping")
			nt = true
		}
	}
	if wantErr == "" {
		for ri, r := range m.DataRows() {
			if len(objs[ri]) < len(r.Cells) {
				add("skipped-empty-cell")
				nt = true
			}
			for _, cell := range r.Cells {
				enc, err := stdjson.Marshal(cell.Live.V)
				if err == nil && string(enc) == "{}" && cell.Text != "" {
					add("empty-object-fallback")
					nt = true
				}
				add("item-" + cell.It.K)
			}
			if len(r.Cells) < m.NCols() {
				add("short-row")
			}
		}
	}
	for _, s := range c.Skip {
		if s == 3 {
			add("non-bool-skipable")
		}
	}
	seenSkip := map[int]bool{}
	for _, op := range c.Props {
		if op.Key == "skip" {
			if op.Val%4 == 0 && seenSkip[op.Col] {
				add("skipable-removed-again")
			}
			seenSkip[op.Col] = true
		} else {
			add("other-property-on-column")
		}
	}
	return nt, nil, cl
}
