package c02

import (
	"fmt"
	"os"
	"testing"

	"pgregory.net/rapid"

	"verif/harness/internal/ev"
	"verif/harness/internal/gen"
	"verif/harness/internal/h"
)

var prop = h.Prop[Case]{ID: ID, Check: CheckCase, Classify: Classify}

func TestMain(m *testing.M) { os.Exit(ev.Main(ID, m)) }

func TestReplay(t *testing.T) { prop.Replay(t, nil) }

func caseGen() *rapid.Generator[Case] {
	max := 25
	if h.Thorough() {
		max = 40
	}
	sg := gen.ScriptGen(gen.ScriptOpts{
		AllowProps: true, AllowRowErr: true, Item: gen.AnyItem(gen.TokASCII, 1),
		MinOps:    1,
		MaxOps:    max,
		MaxCells:  5,
		HeavyTail: 24,
		MultiHdr:  true,
		AllowCopy: true,
		Creators:  []string{"core", "core", "core", "csv", "texttable", "html", "json", "markdown", "auto:utf8-light"},
	})
	return rapid.Custom(func(t *rapid.T) Case {
		return Case{Script: sg.Draw(t, "script"), SepAfter: rapid.IntRange(0, 5).Draw(t, "sep-after") == 0, Grow: rapid.IntRange(0, 5).Draw(t, "grow") == 0}
	})
}

func TestProp(t *testing.T) { prop.Rapid(t, caseGen()) }

// alphabet of the exhaustive enumeration
func alphabet() []gen.Op {
	s := func(x string) gen.Item { return gen.S(x) }
	return []gen.Op{
		{K: "hdr"},
		{K: "hdr", Items: []gen.Item{s("h1"), s("h2")}},
		{K: "rowitems"},
		{K: "rowitems", Items: []gen.Item{s("a"), {K: "int", N: 7}}},
		{K: "sep"},
		{K: "appendnew"},
		{K: "newrowsized"},
		{K: "rowadd", Ref: -1, Items: []gen.Item{s("L")}},                             // last created row
		{K: "rowadd", Ref: 0, Items: []gen.Item{{K: "rune", N: 'F'}, s("G"), s("H")}}, // first created row, three cells
		{K: "addrow", Ref: 0},
		{K: "zerorow"},
	}
}

// TestEnum runs every history up to the bound; shards split on the first operation.
func TestEnum(t *testing.T) {
	maxLen := h.EnvInt("VERIF_C02_ENUM_LEN", 4)
	al := alphabet()
	shard, shards := h.Shard()
	var n int64
	var rec func(prefix []gen.Op)
	rec = func(prefix []gen.Op) {
		if len(prefix) > 0 {
			n++
			ops := make([]gen.Op, len(prefix))
			copy(ops, prefix)
			if v := prop.Eval(Case{Script: gen.Script{Ops: ops}}); v != nil {
				t.Fatalf("VIOLATION %s: %s", ID, v.Msg)
			}
		}
		if len(prefix) == maxLen {
			return
		}
		for i, op := range al {
			if len(prefix) == 0 && i%shards != shard {
				continue
			}
			rec(append(prefix, op))
		}
	}
	rec(nil)
	ev.R().Sub(ev.SubRun{Name: "all-histories", Bound: fmt.Sprintf("every sequence of 1..%d operations over an %d-operation alphabet", maxLen, len(al)), Cases: n, Exhaustive: true})
}
