// Package c02: row/column counts, row order and cell addressing follow the build history.
package c02

import (
	"fmt"
	"reflect"

	"go.pennock.tech/tabular"

	"verif/harness/internal/ev"
	"verif/harness/internal/gen"
)

const ID = "C02"

type Case struct {
	Script gen.Script `json:"script"`
	// SepAfter: the application has registered an add-time row callback on the table that rules off every row: when
	// it is handed a row that has joined the table it adds a separator (building from within a building call)
	SepAfter bool `json:"sep_after,omitempty"`
	// Grow: the application has registered an add-time row callback on the table that adds one more cell to every
	// row it is handed (a computed column): the row is as wide as it is when the callback has done, and so is the table
	Grow bool `json:"grow,omitempty"`
}

type grower struct{ t tabular.Table }

func (g grower) UpdateProperties(po tabular.PropertyOwner) error {
	row, ok := po.(*tabular.Row)
	if !ok || row.IsSeparator() {
		return nil
	}
	for _, x := range g.t.AllRows() {
		if x == row {
			row.Add(tabular.NewCell("computed"))
			break
		}
	}
	return nil
}

type ruler struct{ t tabular.Table }

func (r ruler) UpdateProperties(po tabular.PropertyOwner) error {
	row, ok := po.(*tabular.Row)
	if !ok || row.IsSeparator() {
		return nil
	}
	for _, x := range r.t.AllRows() {
		if x == row { // a row of the table (the header row is not one)
			r.t.AddSeparator()
			break
		}
	}
	return nil
}

type markKey struct{}

func loc(r, c int) tabular.CellLocation { return tabular.CellLocation{Row: r, Column: c} }

// Sweep compares everything observable with the model.
func Sweep(t tabular.Table, m *gen.Model, step int) *ev.Violation {
	// column handles first, before anything else is asked of the table: they exist for 0..column count whatever
	// has or has not been called in the meantime
	for n := 0; n <= m.NCols(); n++ {
		if h := t.Column(n); h == nil || reflect.ValueOf(h).IsNil() {
			return ev.V("Column(%d) is nil right after the operation (asked before NColumns or anything else), the widest header/row has %d cells", n, m.NCols())
		}
	}
	nrows := t.NRows()
	if nrows != len(m.Rows) {
		return ev.V("NRows()=%d after %d rows/separators were added", nrows, len(m.Rows))
	}
	rows := t.AllRows()
	if len(rows) != nrows {
		return ev.V("AllRows() has %d entries, NRows()=%d", len(rows), nrows)
	}
	for i, r := range rows {
		if r != m.Rows[i].Real {
			return ev.V("AllRows()[%d] is not the %d-th row added (insertion order broken)", i, i+1)
		}
	}
	nc := t.NColumns()
	lo, hi := m.NCols(), m.MaxEver
	if nc < lo || nc > hi {
		if lo == hi {
			return ev.V("NColumns()=%d, the widest header/row has %d cells", nc, lo)
		}
		return ev.V("NColumns()=%d outside [%d,%d] (current and historical widest header/row)", nc, lo, hi)
	}
	// addressing
	for r := -1; r <= nrows+1; r++ {
		for c := -1; c <= nc+2; c++ {
			var mc *gen.MCell
			if r >= 1 && r <= nrows {
				mr := m.Rows[r-1]
				if !mr.Sep && !mr.NilCells && c >= 1 && c <= len(mr.Cells) {
					mc = &mr.Cells[c-1]
				}
			}
			cell, err := t.CellAt(loc(r, c))
			if mc == nil {
				if cell != nil || err == nil {
					return ev.V("CellAt(%d,%d) returned (%v, %v) but there is no such cell", r, c, cell, err)
				}
				nsc, ok := err.(tabular.NoSuchCellError)
				if !ok {
					return ev.V("CellAt(%d,%d) error is %T, not a no-such-cell error", r, c, err)
				}
				if nsc.Location != loc(r, c) {
					return ev.V("CellAt(%d,%d) error names location %v", r, c, nsc.Location)
				}
				continue
			}
			if err != nil || cell == nil {
				return ev.V("CellAt(%d,%d) failed (%v) but the %d-th row has %d cells", r, c, err, r, len(m.Rows[r-1].Cells))
			}
			if cell.String() != mc.Text {
				return ev.V("CellAt(%d,%d) has text %q, the cell added there has %q", r, c, cell.String(), mc.Text)
			}
			if !gen.SameItem(mc.Live.V, cell.Item()) {
				return ev.V("CellAt(%d,%d) holds item %#v, not the item added there", r, c, cell.Item())
			}
			if cell.Location() != loc(r, c) {
				return ev.V("CellAt(%d,%d) reports its own location as %v", r, c, cell.Location())
			}
			// it is *the* cell: a mark set through one lookup is seen through every other route
			mark := step*1000003 + r*1009 + c
			cell.SetProperty(markKey{}, mark)
			again, err2 := t.CellAt(loc(r, c))
			if err2 != nil || again.GetProperty(markKey{}) != mark {
				return ev.V("a property set through CellAt(%d,%d) is not visible through a second CellAt", r, c)
			}
			cells := t.AllRows()[r-1].Cells()
			if c-1 >= len(cells) || (&cells[c-1]).GetProperty(markKey{}) != mark {
				return ev.V("a property set through CellAt(%d,%d) is not visible through AllRows()[%d].Cells()[%d]", r, c, r-1, c-1)
			}
			cell.SetProperty(markKey{}, nil)
		}
	}
	// rows
	for i, r := range rows {
		mr := m.Rows[i]
		if r.Location() != loc(i+1, 0) {
			return ev.V("row %d reports location %v", i+1, r.Location())
		}
		if r.IsSeparator() != mr.Sep {
			return ev.V("row %d IsSeparator()=%v, model says %v", i+1, r.IsSeparator(), mr.Sep)
		}
		cells := r.Cells()
		if mr.Sep && cells != nil {
			return ev.V("separator row %d has Cells() != nil", i+1)
		}
		if !mr.Sep && !mr.NilCells && cells == nil {
			return ev.V("row %d has Cells() == nil but is not a separator", i+1)
		}
		if len(cells) != len(mr.Cells) {
			return ev.V("row %d has %d cells, %d were added", i+1, len(cells), len(mr.Cells))
		}
		for j := range cells {
			if cells[j].String() != mr.Cells[j].Text {
				return ev.V("row %d cell %d has text %q, want %q", i+1, j+1, cells[j].String(), mr.Cells[j].Text)
			}
			if cells[j].Location() != loc(i+1, j+1) {
				return ev.V("row %d cell %d reports location %v", i+1, j+1, cells[j].Location())
			}
		}
	}
	// pending rows keep what was added to them
	for _, mr := range m.All {
		if mr.Attached {
			continue
		}
		cells := mr.Real.Cells()
		if len(cells) != len(mr.Cells) {
			return ev.V("a pending row has %d cells, %d were added", len(cells), len(mr.Cells))
		}
		for j := range cells {
			if cells[j].String() != mr.Cells[j].Text || cells[j].Location().Column != j+1 {
				return ev.V("pending row cell %d: text %q location %v, want %q column %d", j+1, cells[j].String(), cells[j].Location(), mr.Cells[j].Text, j+1)
			}
		}
	}
	// column handles
	for n := -2; n <= nc+2; n++ {
		h := t.Column(n)
		if (h != nil) != (n >= 0 && n <= nc) {
			return ev.V("Column(%d) nil=%v with %d columns", n, h == nil, nc)
		}
	}
	// headers
	hs := t.Headers()
	if !m.HeaderSet {
		if hs != nil {
			return ev.V("Headers() is %d cells although none were set", len(hs))
		}
	} else {
		if len(hs) != len(m.Header) {
			return ev.V("Headers() has %d cells, %d were set", len(hs), len(m.Header))
		}
		for j := range hs {
			if hs[j].String() != m.Header[j].Text {
				return ev.V("header %d has text %q, want %q", j+1, hs[j].String(), m.Header[j].Text)
			}
			if hs[j].Location().Column != j+1 {
				return ev.V("header %d reports column %d", j+1, hs[j].Location().Column)
			}
		}
	}
	// the row list handed out is a copy
	if nrows > 0 {
		rr := t.AllRows()
		switch step % 4 {
		case 0:
			rr[0], rr[len(rr)-1] = rr[len(rr)-1], rr[0]
			if len(rr) > 1 {
				rr[1] = rr[0]
			}
		case 1:
			for i := range rr {
				rr[i] = nil
			}
		case 2:
			rr = rr[:0]
			_ = append(rr, tabular.NewRow())
		case 3:
			_ = append(rr, tabular.NewRow(), tabular.NewRow())
			for i, j := 0, len(rr)-1; i < j; i, j = i+1, j-1 {
				rr[i], rr[j] = rr[j], rr[i]
			}
		}
		after := t.AllRows()
		if t.NRows() != nrows || len(after) != nrows {
			return ev.V("mutating the slice returned by AllRows changed the row count to %d/%d (was %d)", t.NRows(), len(after), nrows)
		}
		for i := range after {
			if after[i] != m.Rows[i].Real {
				return ev.V("mutating the slice returned by AllRows changed row %d of the table", i+1)
			}
		}
	}
	return nil
}

func CheckCase(c Case) *ev.Violation {
	t := gen.NewTable(c.Script.Creator)
	m := &gen.Model{}
	if v := Sweep(t, m, 0); v != nil {
		return ev.V("empty table: %s", v.Msg)
	}
	if c.SepAfter {
		if err := t.RegisterPropertyCallback(t, tabular.CB_AT_ADD, tabular.CB_ON_ROW, ruler{t}); err != nil {
			return ev.V("registering an add-time row callback on the table failed: %v", err)
		}
	}
	if c.Grow {
		if err := t.RegisterPropertyCallback(t, tabular.CB_AT_ADD, tabular.CB_ON_ROW, grower{t}); err != nil {
			return ev.V("registering an add-time row callback on the table failed: %v", err)
		}
	}
	for i, op := range c.Script.Ops {
		before := len(m.Rows)
		m.Step(t, op)
		if c.Grow && len(m.Rows) == before+1 && !m.Rows[before].Sep && !m.Rows[before].NilCells {
			mr := m.Rows[before]
			mr.Cells = append(mr.Cells, gen.MCell{It: gen.S("computed"), Live: gen.Materialise(gen.S("computed")), Text: "computed"})
			mr.LateAdds++
			if len(mr.Cells) > m.MaxEver {
				m.MaxEver = len(mr.Cells)
			}
		}
		if c.SepAfter && len(m.Rows) == before+1 && !m.Rows[before].Sep {
			// the callback ruled the new row off: a separator follows it
			sep := &gen.MRow{Sep: true, Attached: true, Pos: before + 2}
			if rows := t.AllRows(); len(rows) >= 2 {
				sep.Real = rows[len(rows)-1]
				if m.Rows[before].Real == sep.Real {
					m.Rows[before].Real = rows[len(rows)-2] // the model took "the last row of the table" for the new row
				}
			}
			m.Rows = append(m.Rows, sep)
			m.All = append(m.All, sep)
			m.HasSep = true
		}
		if v := Sweep(t, m, i+1); v != nil {
			return ev.V("after step %d (%s): %s", i+1, op.K, v.Msg)
		}
	}
	return nil
}

func Classify(c Case) (bool, interface{}, []string) {
	// replay the script on a scratch table to learn the model facts
	_, m := gen.Build(c.Script)
	var cl []string
	if c.SepAfter {
		cl = append(cl, "a-callback-rules-off-every-row")
	}
	add := func(b bool, s string) {
		if b {
			cl = append(cl, s)
		}
	}
	add(m.LateAdd, "late-add")
	add(m.HdrAfterRows, "headers-after-rows")
	add(m.ZeroCellRow, "zero-cell-row")
	add(m.ZeroCellHdr, "zero-cell-header")
	add(m.HasSep, "separator")
	add(m.Ragged, "ragged")
	add(m.SepAdd, "add-to-separator")
	add(m.HeaderSets > 1, "headers-replaced")
	add(m.MaxEver >= 10, "ten-or-more-columns")
	add(m.NCols() != m.MaxEver, "header-shrunk")
	pend := 0
	for _, r := range m.All {
		if !r.Attached {
			pend++
		}
	}
	add(pend > 0, "pending-row-left")
	nt := m.LateAdd || m.HdrAfterRows || m.ZeroCellRow || m.ZeroCellHdr || m.HasSep || m.Ragged
	return nt, fmt.Sprintf("%s", c.Script.Shape()), cl
}
