// Package c18: line and width metrics are mutually consistent.
package c18

import (
	"strings"
	"unicode/utf8"

	"go.pennock.tech/tabular"
	"go.pennock.tech/tabular/length"
	"go.pennock.tech/tabular/texttable"

	"verif/harness/internal/ev"
	"verif/harness/internal/gen"
)

const ID = "C18"

// Case: a string, and how it is put into a cell (plain string, Stringer, error, rune-free kinds).
type Case struct {
	S    gen.Str `json:"s"`
	Wrap string  `json:"wrap,omitempty"` // "", "stringer", "error", "gostringer", "pstringer", "bytes-v"
	// To, if set and the wrapping is mutable, is the text the item is changed to behind the cell's back,
	// followed by Cell.Update(): height, lines and width must follow the new text.
	To *gen.Str `json:"to,omitempty"`
}

func max(a, b int) int {
	if a > b {
		return a
	}
	return b
}

func CheckString(s string) *ev.Violation {
	lines := length.Lines(s)
	for i, l := range lines {
		if strings.Contains(l, "\n") {
			return ev.V("Lines(%q)[%d]=%q still contains a line break", s, i, l)
		}
	}
	joined := strings.Join(lines, "\n")
	if joined != s && joined+"\n" != s {
		return ev.V("Lines(%q)=%q loses more than the line breaks and one trailing newline", s, lines)
	}
	if len(lines) == 0 && s != "" && s != "\n" {
		return ev.V("Lines(%q) is empty", s)
	}
	mb, mr, mc := 0, 0, 0
	for _, l := range lines {
		b, r, c := length.StringBytes(l), length.StringRunes(l), length.StringCells(l)
		if b != len(l) {
			return ev.V("StringBytes(%q)=%d, len is %d", l, b, len(l))
		}
		if r != utf8.RuneCountInString(l) {
			return ev.V("StringRunes(%q)=%d, rune count is %d", l, r, utf8.RuneCountInString(l))
		}
		if r > b {
			return ev.V("line %q: %d runes exceed %d bytes", l, r, b)
		}
		if c > 2*r {
			return ev.V("line %q: %d display cells exceed twice its %d runes", l, c, r)
		}
		if c < 0 {
			return ev.V("line %q: negative width %d", l, c)
		}
		mb, mr, mc = max(mb, b), max(mr, r), max(mc, c)
	}
	if got := length.LongestLineBytes(s); got != mb {
		return ev.V("LongestLineBytes(%q)=%d, maximum over lines is %d", s, got, mb)
	}
	if got := length.LongestLineRunes(s); got != mr {
		return ev.V("LongestLineRunes(%q)=%d, maximum over lines is %d", s, got, mr)
	}
	if got := length.LongestLineCells(s); got != mc {
		return ev.V("LongestLineCells(%q)=%d, maximum over lines is %d", s, got, mc)
	}
	return nil
}

func item(c Case) gen.Item {
	switch c.Wrap {
	case "stringer":
		return gen.Item{K: "if", M: gen.MString, S: c.S}
	case "pstringer":
		return gen.Item{K: "ifp", M: gen.MString, S: c.S}
	case "error":
		return gen.Item{K: "if", M: gen.MError, E: c.S, P: true}
	case "gostringer":
		return gen.Item{K: "if", M: gen.MGoString, G: c.S}
	case "bytes-v":
		return gen.Item{K: "bytes", S: c.S}
	case "nested":
		in := gen.S(string(c.S))
		return gen.Item{K: "cell", In: &in}
	}
	return gen.S(string(c.S))
}

func CheckCase(c Case) *ev.Violation {
	if v := CheckString(string(c.S)); v != nil {
		return v
	}
	it := item(c)
	live := gen.Materialise(it)
	text := gen.TextForm(it, live)
	if v := CheckString(text); v != nil {
		return v
	}
	cell := tabular.NewCell(live.V)
	want := length.Lines(text)
	wantW := 0
	for _, l := range want {
		wantW = max(wantW, length.StringCells(l))
	}
	check := func(where string, cl *tabular.Cell) *ev.Violation {
		got := cl.Lines()
		if len(got) != len(want) {
			return ev.V("%s: Cell.Lines() has %d lines, length.Lines(text) %d (text %q)", where, len(got), len(want), text)
		}
		for i := range want {
			if got[i] != want[i] {
				return ev.V("%s: Cell.Lines()[%d]=%q, want %q", where, i, got[i], want[i])
			}
		}
		if h := cl.Height(); h != len(want) {
			return ev.V("%s: Height()=%d but the text %q has %d lines", where, h, text, len(want))
		}
		if w := cl.TerminalCellWidth(); w != wantW {
			return ev.V("%s: TerminalCellWidth()=%d but the longest line of %q is %d cells wide", where, w, text, wantW)
		}
		// the list handed out is the caller's: whatever it does with it, the cell still has its lines
		for i := range got {
			got[i] = "scribbled by the caller"
		}
		if again := cl.Lines(); len(again) != len(want) || (len(want) > 0 && again[0] != want[0]) {
			return ev.V("%s: after the caller overwrote the list Cell.Lines() had handed out, Cell.Lines() gives %q, want %q", where, again, want)
		}
		return nil
	}
	if v := check("NewCell", &cell); v != nil {
		return v
	}
	// the same through a table and the text renderer's measuring pass: the
	// per-line widths it stores for the emit pass must agree with the layout width
	tt := texttable.New()
	tt.AddRowItems(live.V)
	if _, err := tt.Render(); err != nil {
		return ev.V("text render of a 1x1 table failed: %v", err)
	}
	tc, err := tt.CellAt(tabular.CellLocation{Row: 1, Column: 1})
	if err != nil {
		return ev.V("CellAt(1,1): %v", err)
	}
	if v := check("cell in rendered table", tc); v != nil {
		return v
	}
	lw := texttable.CellPropertyExtractLinesWidths(tc)
	if len(lw) != len(want) {
		return ev.V("text renderer stored %d per-line widths for a cell of %d lines (text %q)", len(lw), len(want), text)
	}
	for i := range want {
		if lw[i].S != want[i] {
			return ev.V("text renderer line %d is %q, want %q", i, lw[i].S, want[i])
		}
		if lw[i].W != length.StringCells(want[i]) {
			return ev.V("text renderer measured line %q as %d cells, the metric says %d (layout and emit pass disagree)", want[i], lw[i].W, length.StringCells(want[i]))
		}
		if lw[i].W > wantW {
			return ev.V("line %q is %d cells wide but the cell's width is %d", want[i], lw[i].W, wantW)
		}
	}
	if c.To != nil && live.St != nil {
		live.St.S, live.St.G, live.St.E = string(*c.To), string(*c.To), string(*c.To)
		text = gen.TextForm(it, live)
		want = length.Lines(text)
		wantW = 0
		for _, l := range want {
			wantW = max(wantW, length.StringCells(l))
		}
		cell.Update()
		if v := check("after mutation and Update", &cell); v != nil {
			return v
		}
		tc.Update()
		if v := check("cell in table after mutation and Update", tc); v != nil {
			return v
		}
		if _, err := tt.Render(); err != nil {
			return ev.V("text render after Update failed: %v", err)
		}
		lw = texttable.CellPropertyExtractLinesWidths(tc)
		if len(lw) != len(want) {
			return ev.V("after mutation, Update and a new render the text renderer holds %d per-line widths for a cell of %d lines (text %q)", len(lw), len(want), text)
		}
		for i := range want {
			if lw[i].S != want[i] || lw[i].W != length.StringCells(want[i]) {
				return ev.V("after mutation, Update and a new render the text renderer holds line %q width %d, want %q width %d", lw[i].S, lw[i].W, want[i], length.StringCells(want[i]))
			}
		}
	}
	// layout and emit pass agree on every render: the cell joins a table that has been rendered before,
	// without changing the table's shape (a short row gets its missing cell)
	t2 := texttable.New()
	t2.AddHeaders("h", "i")
	row := t2.AppendNewRow()
	row.Add(tabular.NewCell("x"))
	if _, err := t2.Render(); err != nil {
		return ev.V("text render failed: %v", err)
	}
	row.Add(tabular.NewCell(gen.Materialise(it).V))
	again, err := t2.Render()
	if err != nil {
		return ev.V("second text render failed: %v", err)
	}
	t3 := texttable.New()
	t3.AddHeaders("h", "i")
	t3.AddRowItems("x", gen.Materialise(it).V)
	fresh, _ := t3.Render()
	if again != fresh {
		return ev.V("a table rendered, completed by one cell (text %q) and rendered again differs from the same table rendered once\n--- again\n%s--- fresh\n%s", text, again, fresh)
	}
	additive := true
	fl := gen.Materialise(it)
	for _, l := range length.Lines(gen.TextForm(it, fl)) {
		if length.StringCells(" "+l+" ") != length.StringCells(l)+2 {
			additive = false
		}
	}
	if additive {
		ls := strings.Split(strings.TrimSuffix(again, "\n"), "\n")
		for i, l := range ls {
			if length.StringCells(l) != length.StringCells(ls[0]) {
				return ev.V("re-rendered table is not a rectangle: line %d is %d cells wide, line 0 is %d\n%s", i, length.StringCells(l), length.StringCells(ls[0]), again)
			}
		}
	}
	return nil
}

func Classify(c Case) (bool, interface{}, []string) {
	s := string(c.S)
	var cl []string
	nt := false
	if s == "" {
		nt = true
		cl = append(cl, "empty")
	}
	if strings.HasPrefix(s, "\n") {
		nt = true
		cl = append(cl, "leading-lf")
	}
	if strings.HasSuffix(s, "\n") {
		nt = true
		cl = append(cl, "trailing-lf")
	}
	if strings.Contains(s, "\n\n") {
		nt = true
		cl = append(cl, "repeated-lf")
	}
	if strings.Contains(s, "\n") {
		cl = append(cl, "multi-line")
	}
	for i := 0; i < len(s); i++ {
		if s[i] >= 0x80 {
			nt = true
			cl = append(cl, "non-ascii")
			break
		}
	}
	if !utf8.ValidString(s) {
		cl = append(cl, "invalid-utf8")
	}
	cl = append(cl, gen.ClassOf(s)...)
	if c.Wrap != "" {
		cl = append(cl, "wrap-"+c.Wrap)
	}
	if c.To != nil {
		switch {
		case *c.To == "" && s != "":
			cl = append(cl, "mutated-to-empty")
		case s == "" && *c.To != "":
			cl = append(cl, "mutated-from-empty")
		default:
			cl = append(cl, "mutated")
		}
	}
	return nt, nil, cl
}
