package c18

import (
	"os"
	"strings"
	"testing"

	"pgregory.net/rapid"

	"verif/harness/internal/ev"
	"verif/harness/internal/gen"
	"verif/harness/internal/h"
)

var prop = h.Prop[Case]{ID: ID, Check: CheckCase, Classify: Classify}

func TestMain(m *testing.M) { os.Exit(ev.Main(ID, m)) }

func TestReplay(t *testing.T) { prop.Replay(t, nil) }

var wraps = []string{"", "", "", "stringer", "pstringer", "error", "gostringer", "bytes-v", "nested"}

func caseGen() *rapid.Generator[Case] {
	return rapid.Custom(func(t *rapid.T) Case {
		var s string
		switch rapid.IntRange(0, 9).Draw(t, "mode") {
		case 0:
			s = string(rapid.SliceOfN(rapid.Byte(), 0, 12).Draw(t, "bytes"))
		case 1:
			s = rapid.String().Draw(t, "str")
		default:
			s = gen.StringOf(gen.TokWidth, 0, 8).Draw(t, "s")
		}
		c := Case{S: gen.Str(s), Wrap: rapid.SampledFrom(wraps).Draw(t, "wrap")}
		if rapid.IntRange(0, 2).Draw(t, "mutate?") == 0 {
			to := gen.Str(gen.StringOf(gen.TokWidth, 0, 3).Draw(t, "to"))
			c.To = &to
		}
		return c
	})
}

func TestProp(t *testing.T) { prop.Rapid(t, caseGen()) }

// TestLongLines: very long lines at buffer-size boundaries (4 KiB, 64 KiB), alone, first and in the middle of a text.
func TestLongLines(t *testing.T) {
	var n int64
	for _, ln := range []int{4095, 4096, 4097, 65535, 65536, 65537} {
		for pos := 0; pos < 3; pos++ {
			long := strings.Repeat("a", ln)
			s := long
			switch pos {
			case 1:
				s = long + "\nshort"
			case 2:
				s = "x\n" + long + "\ntail \u6f22"
			}
			n++
			if v := prop.Eval(Case{S: gen.Str(s)}); v != nil {
				t.Fatalf("VIOLATION %s: line of %d bytes at position %d", ID, ln, pos)
			}
		}
	}
	ev.R().Sub(ev.SubRun{Name: "long-lines", Bound: "one line of 4095/4096/4097/65535/65536/65537 bytes, alone, first, or in the middle of a text", Cases: n, Exhaustive: true})
}

func FuzzC18(f *testing.F) {
	for _, s := range []string{"", "\n", "a\nb", "\n\n\n", "漢字\nab", "é\n​", "abc\nａｂ", "\xff\n\xc3", "\U0001f469‍\U0001f4bb\nxx"} {
		f.Add([]byte(s), uint8(0))
	}
	f.Fuzz(func(t *testing.T, b []byte, w uint8) {
		c := Case{S: gen.Str(b), Wrap: wraps[int(w)%len(wraps)]}
		if v := prop.Eval(c); v != nil {
			t.Fatalf("VIOLATION %s", ID)
		}
	})
}
