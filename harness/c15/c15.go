// Package c15: a failing writer always surfaces as an error and output stops there.
package c15

import (
	"bytes"
	"context"
	"errors"
	"fmt"
	"html/template"
	"io"
	"os"
	"syscall"

	"go.pennock.tech/tabular"
	"go.pennock.tech/tabular/auto"
	"go.pennock.tech/tabular/csv"
	"go.pennock.tech/tabular/html"
	"go.pennock.tech/tabular/json"
	"go.pennock.tech/tabular/markdown"
	"go.pennock.tech/tabular/properties/align"
	"go.pennock.tech/tabular/texttable"

	"verif/harness/internal/ev"
	"verif/harness/internal/gen"
	"verif/harness/internal/tc"
)

const ID = "C15"

var Styles = []string{"csv", "html", "json", "markdown", "utf8-heavy", "none", "ascii-simple", "utf8-light"}
var Modes = []string{"from", "once", "partial"}

// Case is a table and a renderer; every write index x failure mode is enumerated by the check.
// A replay file may pin one fault point with K and Mode.
type Case struct {
	Script gen.Script `json:"script"`
	Style  string     `json:"style"`
	Align  []int      `json:"align,omitempty"`
	K      *int       `json:"k,omitempty"`
	Mode   string     `json:"mode,omitempty"`
	// Err: which error value the writer reports: "" a private error, "eof" io.EOF, "short" io.ErrShortWrite, "closed" io.ErrClosedPipe, "epipe" a PathError over EPIPE, "wrapped" a %w chain, "nocause" an error whose Unwrap gives nil, "deadline", "canceled"
	Err string `json:"err,omitempty"`
	// Rich: the writer also offers WriteString and WriteByte (like bytes.Buffer and bufio.Writer); a call to any of the three counts
	Rich bool `json:"rich,omitempty"`
	// Repeat: the script's rows are replayed this many times more (big tables cross internal buffer sizes)
	Repeat int `json:"repeat,omitempty"`
	// RowClass (html only): the wrapper has a row-class generator installed
	RowClass bool `json:"row_class,omitempty"`
}

// withRowClass installs a row-class generator on an HTML wrapper.
func (c Case) withRowClass(rw auto.RenderTable) auto.RenderTable {
	if ht, ok := rw.(*html.HTMLTable); ok && c.RowClass {
		ht.SetRowClassGenerator(func(n int, _ interface{}) template.HTMLAttr {
			return template.HTMLAttr(fmt.Sprintf("r%d", n%2))
		}, nil)
	}
	return rw
}

var errFault = errors.New("injected write failure")

// faultWriter fails at write index k: "from" = every call from k on fails; "once" = only call k fails;
// "partial" = call k accepts half of the bytes and reports an error, later calls succeed.
type faultWriter struct {
	k        int
	mode     string
	err      error
	calls    int
	accepted bytes.Buffer
}

func (w *faultWriter) Write(p []byte) (int, error) {
	i := w.calls
	w.calls++
	e := w.err
	if e == nil {
		e = errFault
	}
	switch {
	case w.mode == "from" && i >= w.k, w.mode == "once" && i == w.k:
		return 0, e
	case w.mode == "partial" && i == w.k:
		n := len(p) / 2
		w.accepted.Write(p[:n])
		return n, e
	}
	w.accepted.Write(p)
	return len(p), nil
}

// richWriter adds the optional fast-path methods some renderers may look for.
type richWriter struct{ *faultWriter }

func (w richWriter) WriteString(s string) (int, error) { return w.faultWriter.Write([]byte(s)) }
func (w richWriter) WriteByte(c byte) error {
	_, err := w.faultWriter.Write([]byte{c})
	return err
}

func errOf(kind string) error {
	switch kind {
	case "eof":
		return io.EOF
	case "short":
		return io.ErrShortWrite
	case "closed":
		return io.ErrClosedPipe
	case "epipe":
		return &os.PathError{Op: "write", Path: "|1", Err: syscall.EPIPE} // what a File gives once the reader has gone
	case "wrapped":
		return fmt.Errorf("flush: %w", errors.New("device full"))
	case "nocause":
		return &causeErr{msg: "write refused"} // has an Unwrap method, and nothing to unwrap
	case "deadline":
		return os.ErrDeadlineExceeded // Timeout() is true: a retryable look, still a failed write
	case "canceled":
		return context.Canceled
	case "list":
		return errList{errors.New("disk full"), errors.New("quota exceeded")} // a slice type used by value (like go/scanner.ErrorList): not comparable with ==
	}
	return nil
}

type errList []error

func (l errList) Error() string { return fmt.Sprintf("%d errors, first: %v", len(l), l[0]) }

// causeErr is an error with an optional cause (unset here).
type causeErr struct {
	msg   string
	cause error
}

func (e *causeErr) Error() string { return e.msg }
func (e *causeErr) Unwrap() error { return e.cause }

func (c Case) writer(fw *faultWriter) io.Writer {
	fw.err = errOf(c.Err)
	if c.Rich {
		return richWriter{fw}
	}
	return fw
}

// build makes the table, replaying the rows Repeat more times.
func build(c Case) tabular.Table {
	t, _ := gen.Build(c.Script)
	for i := 0; i < c.Repeat; i++ {
		for _, op := range c.Script.Ops {
			if op.K == "rowitems" || op.K == "sep" {
				(&gen.Model{}).Step(t, op)
			}
		}
	}
	return t
}

// FaultPoint runs one injected fault on a freshly built table.
func FaultPoint(c Case, k int, mode string, want string) *ev.Violation {
	t := build(c)
	n := t.NColumns()
	for i := 0; i <= n && i < len(c.Align); i++ {
		if v := tc.AlignValue(c.Align[i]); v != nil {
			t.Column(i).SetProperty(align.PropertyType, v)
		}
	}
	fw := &faultWriter{k: k, mode: mode}
	var err error
	rw := c.withRowClass(auto.Wrap(t, c.Style))
	if v := ev.Guard(func() *ev.Violation {
		err = rw.RenderTo(c.writer(fw))
		return nil
	}); v != nil {
		return ev.V("%s, write %d fails (%s): %s", c.Style, k, mode, v.Msg)
	}
	if fw.calls <= k {
		return ev.V("%s, harness: write %d was never reached (%d calls)", c.Style, k, fw.calls)
	}
	if err == nil {
		return ev.V("%s: write %d failed (%s) but RenderTo returned nil; the writer accepted %q", c.Style, k, mode, fw.accepted.String())
	}
	got := fw.accepted.String()
	if len(got) > len(want) || want[:len(got)] != got {
		return ev.V("%s: write %d failed (%s): the bytes the writer accepted are not a prefix of the fault-free output (rendering went on after the failure)\n--- accepted\n%q\n--- fault-free\n%q", c.Style, k, mode, got, want)
	}
	// the package-level entry points are renderers too: the same fault, on a fresh writer each
	entries := map[string]func(io.Writer) error{}
	if !c.RowClass {
		entries["auto.RenderTo(t, w, style)"] = func(w io.Writer) error { return auto.RenderTo(t, w, c.Style) }
	}
	switch c.Style {
	case "csv":
		entries["csv.RenderTo(t, w)"] = func(w io.Writer) error { return csv.RenderTo(t, w) }
	case "json":
		entries["json.RenderTo(t, w)"] = func(w io.Writer) error { return json.RenderTo(t, w) }
	case "markdown":
		entries["markdown.RenderTo(t, w)"] = func(w io.Writer) error { return markdown.RenderTo(t, w) }
	case "utf8-heavy":
		entries["texttable.RenderTo(t, w)"] = func(w io.Writer) error { return texttable.RenderTo(t, w) }
	}
	for name, f := range entries {
		fwe := &faultWriter{k: k, mode: mode}
		var erre error
		if v := ev.Guard(func() *ev.Violation { erre = f(c.writer(fwe)); return nil }); v != nil {
			return ev.V("%s, %s, write %d fails (%s): %s", c.Style, name, k, mode, v.Msg)
		}
		if fwe.calls <= k {
			continue
		}
		if erre == nil {
			return ev.V("%s: %s: write %d failed (%s) but it returned nil; the writer accepted %q", c.Style, name, k, mode, fwe.accepted.String())
		}
		if g := fwe.accepted.String(); len(g) > len(want) || want[:len(g)] != g {
			return ev.V("%s: %s: write %d failed (%s): the bytes the writer accepted are not a prefix of the fault-free output\n--- accepted\n%q\n--- fault-free\n%q", c.Style, name, k, mode, g, want)
		}
	}
	// fault sequences on one wrapper: the same wrapper is asked again, first with another failing writer
	// (the prefix property holds for that render too), then with a healthy one (the full output)
	fw2 := &faultWriter{k: (k + 1) / 2, mode: "once"}
	var err2 error
	if v := ev.Guard(func() *ev.Violation { err2 = rw.RenderTo(c.writer(fw2)); return nil }); v != nil {
		return ev.V("%s: second render on the wrapper after a failed one: %s", c.Style, v.Msg)
	}
	if fw2.calls > fw2.k {
		got2 := fw2.accepted.String()
		if err2 == nil {
			return ev.V("%s: after a failed render (write %d, %s) a second render on the same wrapper had write %d fail but returned nil", c.Style, k, mode, fw2.k)
		}
		if len(got2) > len(want) || want[:len(got2)] != got2 {
			return ev.V("%s: after a failed render (write %d, %s) the second render on the same wrapper (write %d fails once) delivered bytes that are not a prefix of the fault-free output\n--- accepted\n%q\n--- fault-free\n%q", c.Style, k, mode, fw2.k, got2, want)
		}
	}
	var healthy bytes.Buffer
	if err3 := rw.RenderTo(&healthy); err3 != nil || healthy.String() != want {
		return ev.V("%s: after failed renders (write %d, %s) the same wrapper no longer renders the fault-free output: err=%v\n--- got\n%q\n--- want\n%q", c.Style, k, mode, err3, healthy.String(), want)
	}
	return nil
}

// Points returns the number of Write calls of the fault-free render (0 if it fails) and its output.
func Points(c Case) (int, string) {
	t := build(c)
	n := t.NColumns()
	for i := 0; i <= n && i < len(c.Align); i++ {
		if v := tc.AlignValue(c.Align[i]); v != nil {
			t.Column(i).SetProperty(align.PropertyType, v)
		}
	}
	// count with the same kind of writer that will be used (a rich writer may be written to differently)
	fw := &faultWriter{k: -1, mode: "none"}
	if err := c.withRowClass(auto.Wrap(t, c.Style)).RenderTo(c.writer(fw)); err != nil {
		return 0, ""
	}
	return fw.calls, fw.accepted.String()
}

// CheckCase enumerates every fault point (or the pinned one).
func CheckCase(c Case) *ev.Violation {
	var w int
	var want string
	if v := ev.Guard(func() *ev.Violation { w, want = Points(c); return nil }); v != nil {
		return ev.V("the fault-free render panics: %s", v.Msg)
	}
	if c.K != nil {
		if *c.K >= w {
			return nil
		}
		return FaultPoint(c, *c.K, c.Mode, want)
	}
	for k := 0; k < w; k++ {
		for _, mode := range Modes {
			if v := FaultPoint(c, k, mode, want); v != nil {
				return v
			}
		}
	}
	return nil
}
