package c15

import (
	"os"
	"strings"
	"testing"

	"pgregory.net/rapid"

	"verif/harness/internal/ev"
	"verif/harness/internal/gen"
	"verif/harness/internal/h"
)

func TestMain(m *testing.M) { os.Exit(ev.Main(ID, m)) }

func classes(c Case) []string {
	cl := []string{"style-" + c.Style}
	if c.Err != "" {
		cl = append(cl, "error-value-"+c.Err)
	}
	if c.Rich {
		cl = append(cl, "writer-with-WriteString-WriteByte")
	}
	if c.Repeat > 0 {
		cl = append(cl, "big-table")
	}
	hdr := false
	for _, op := range c.Script.Ops {
		if op.K == "hdr" {
			hdr = true
		}
	}
	if !hdr {
		cl = append(cl, "no-header")
	}
	for _, op := range c.Script.Ops {
		for _, it := range op.Items {
			if strings.Contains(string(it.S), "\n") {
				cl = append(cl, "multi-line-cell")
				return cl
			}
		}
	}
	return cl
}

// evalAll enumerates every fault point of the case, recording each as one evaluation.
func evalAll(c Case) *ev.Violation {
	var w int
	var want string
	if v := ev.Guard(func() *ev.Violation { w, want = Points(c); return nil }); v != nil {
		v = ev.V("the fault-free render panics: %s", v.Msg)
		ev.R().Fail(ID, c, v)
		return v
	}
	if w == 0 {
		ev.R().Count("fault-free-render-fails-or-writes-nothing", 1)
		return nil
	}
	base := ev.Hash64(c)
	cl := classes(c)
	ev.R().Count("tables", 1)
	faultPoints += int64(3 * w)
	step := 1
	if w > 400 {
		step = w / 200 // big tables: a sample of the write indices (first, last and every step-th)
		if c.Repeat >= 300 {
			step = w / 50 // the largest table: each render takes tens of milliseconds
		}
	}
	for k := 0; k < w; k++ {
		if k%step != 0 && k != w-1 && k != w-2 {
			continue
		}
		for mi, mode := range Modes {
			// every (table, renderer, k, mode) is a distinct fault point; non-trivial if k > 0 or mode != from
			var sample interface{}
			if k == w/2 && mi == 1 {
				kk := k
				sample = Case{Script: c.Script, Style: c.Style, Align: c.Align, K: &kk, Mode: mode, Err: c.Err, Rich: c.Rich, Repeat: c.Repeat, RowClass: c.RowClass}
			}
			ev.R().Eval(sample, base*1000003+uint64(k*3+mi)+1, k > 0 || mode != "from", append(cl, "mode-"+mode)...)
			if v := FaultPoint(c, k, mode, want); v != nil {
				kk := k
				ev.R().Fail(ID, Case{Script: c.Script, Style: c.Style, Align: c.Align, K: &kk, Mode: mode, Err: c.Err, Rich: c.Rich, Repeat: c.Repeat, RowClass: c.RowClass}, v)
				return v
			}
		}
	}
	return nil
}

var faultPoints int64

func TestReplay(t *testing.T) {
	p := h.Prop[Case]{ID: ID, Check: CheckCase, Classify: func(Case) (bool, interface{}, []string) { return true, nil, nil }}
	p.Replay(t, nil)
}

func caseGen() *rapid.Generator[Case] {
	max := 6
	if h.Thorough() {
		max = 10
	}
	key := rapid.Custom(func(t *rapid.T) gen.Item {
		return gen.S(gen.StringOf([]string{"k", "h1", "h2", "h3", "name", "x y", "n\nl"}, 1, 2).Draw(t, "key"))
	})
	anyItem := gen.AnyItem(gen.TokASCII, 1)
	short := gen.StrItem(append([]string{"\n", "a\nb", "l1\nl2\nl3"}, gen.TokASCII...), 3)
	long := gen.BoundaryString([]string{"\"", ",", "<", "|", "a\nb"})
	item := rapid.Custom(func(t *rapid.T) gen.Item {
		if gen.Rarely(t, "long", 150) {
			return gen.S(long.Draw(t, "longv")) // buffered writers have sizes: a piece as large as the buffer
		}
		if rapid.IntRange(0, 5).Draw(t, "any") == 0 {
			return gen.NoAddressText(anyItem.Draw(t, "any-item")) // items of every kind: each renderer has its own way with them
		}
		return short.Draw(t, "short")
	})
	sg := gen.ScriptGen(gen.ScriptOpts{AllowProps: true, AllowRowErr: true, Item: item, HdrItem: key, MinOps: 1, MaxOps: max, MaxCells: 3, HdrCells: [2]int{3, 5}, ForceHdr: true, NoSepAdd: true})
	nohdr := gen.ScriptGen(gen.ScriptOpts{AllowProps: true, AllowRowErr: true, Item: item, MinOps: 1, MaxOps: max, MaxCells: 3, NoHdr: true, NoSepAdd: true})
	return rapid.Custom(func(t *rapid.T) Case {
		c := Case{Style: rapid.SampledFrom(Styles).Draw(t, "style"), Align: rapid.SliceOfN(rapid.IntRange(0, 3), 0, 4).Draw(t, "align")}
		if rapid.IntRange(0, 4).Draw(t, "headerless") == 0 {
			c.Script = nohdr.Draw(t, "script") // csv, html and the text renderers do not need a header
		} else {
			c.Script = sg.Draw(t, "script")
		}
		c.Err = rapid.SampledFrom([]string{"", "", "", "eof", "short", "closed", "epipe", "wrapped", "nocause", "deadline", "canceled", "list"}).Draw(t, "err")
		c.Rich = rapid.IntRange(0, 3).Draw(t, "rich") == 0
		c.RowClass = c.Style == "html" && rapid.Bool().Draw(t, "rowclass")
		bigOneIn := 250
		if h.Thorough() {
			bigOneIn = 60
		}
		if gen.Rarely(t, "big", bigOneIn) {
			c.Repeat = rapid.SampledFrom([]int{60, 250}).Draw(t, "repeat") // tens of kilobytes of output
			for _, op := range c.Script.Ops {
				for _, it := range op.Items {
					if len(it.S) > 200 {
						c.Repeat = 0 // not both: a long cell replayed 250 times is megabytes per render
					}
				}
			}
		}
		// distinct header texts, so that the JSON renderer accepts the table
		for _, op := range c.Script.Ops {
			if op.K == "hdr" {
				for i := range op.Items {
					op.Items[i].S += gen.Str(string(rune('A' + i)))
				}
			}
		}
		return c
	})
}

// ErrKinds: every error value the failing writer can report.
var ErrKinds = []string{"", "eof", "short", "closed", "epipe", "wrapped", "nocause", "deadline", "canceled", "list"}

// TestCross: four fixed tables (headed with a separator and a multi-line cell; header narrower than the rows;
// headerless; skipable columns with empty cells) x every renderer x every error value x plain/rich writer, every fault point of each.
func TestCross(t *testing.T) {
	s := gen.S
	tables := [][]gen.Op{
		{{K: "hdr", Items: []gen.Item{s("k"), s("name"), s("n")}}, {K: "rowitems", Items: []gen.Item{s("a"), s("b\nc"), {K: "int", N: 1}}}, {K: "rowitems", Items: []gen.Item{{K: "sns", S: "3x4"}, {K: "sns", S: "text only"}, s("z")}}, {K: "sep"}, {K: "rowitems", Items: []gen.Item{s("\"q\""), s("<&>|")}}},
		{{K: "hdr", Items: []gen.Item{s("id"), s("what")}}, {K: "rowitems", Items: []gen.Item{s("1"), s("x"), s("beyond the header")}}, {K: "rowitems"}},
		{{K: "rowitems", Items: []gen.Item{s("no"), s("header")}}, {K: "appendnew"}, {K: "rowadd", Ref: -1, Items: []gen.Item{s("late")}}},
		// columns that may be skipped when empty (column 1 by its own setting, column 3 by the default of column 0, column 2 never) and rows with empty cells at the front, in the middle, at the end
		{{K: "hdr", Items: []gen.Item{s("a"), s("b"), s("c")}}, {K: "prop", P: &gen.PropOp{Col: 0, Key: "skip", Val: 1}}, {K: "prop", P: &gen.PropOp{Col: 1, Key: "skip", Val: 1}}, {K: "prop", P: &gen.PropOp{Col: 2, Key: "skip", Val: 2}},
			{K: "rowitems", Items: []gen.Item{s("1"), s("2"), s("3")}}, {K: "rowitems", Items: []gen.Item{s(""), s("x"), s("y")}}, {K: "rowitems", Items: []gen.Item{s(""), s(""), s("z")}}, {K: "rowitems", Items: []gen.Item{s("p"), s(""), s("")}}, {K: "rowitems", Items: []gen.Item{s(""), s(""), s("")}}, {K: "rowitems", Items: []gen.Item{s("last")}}},
	}
	shard, shards := h.Shard()
	i := 0
	for _, ops := range tables {
		for _, st := range Styles {
			for _, ek := range ErrKinds {
				for _, rich := range []bool{false, true} {
					i++
					if i%shards != shard {
						continue
					}
					c := Case{Script: gen.Script{Ops: ops}, Style: st, Err: ek, Rich: rich, Align: []int{0, 2, 3}, RowClass: st == "html" && i%2 == 0}
					if v := evalAll(c); v != nil {
						t.Fatalf("VIOLATION %s (detail in the replay file)", ID)
					}
				}
			}
		}
	}
	// one table whose output runs to tens of kilobytes (past any 4, 8, 16 or 32 KiB buffer), under every renderer,
	// plain and rich writer, two error values; fault points sampled as in evalAll
	for _, st := range Styles {
		for _, ek := range []string{"", "eof"} {
			for _, rich := range []bool{false, true} {
				i++
				if i%shards != shard {
					continue
				}
				c := Case{Script: gen.Script{Ops: tables[0]}, Style: st, Err: ek, Rich: rich, Repeat: 120}
				if v := evalAll(c); v != nil {
					t.Fatalf("VIOLATION %s (detail in the replay file)", ID)
				}
			}
		}
	}
	// and once more about four times as large (past 32 and 64 KiB) under the four non-text renderers (the text renderers take seconds per render at that size), plain writer, one error value
	for _, st := range []string{"csv", "html", "json", "markdown"} {
		i++
		if i%shards != shard {
			continue
		}
		c := Case{Script: gen.Script{Ops: tables[0]}, Style: st, Repeat: 480}
		if v := evalAll(c); v != nil {
			t.Fatalf("VIOLATION %s (detail in the replay file)", ID)
		}
	}
	ev.R().Sub(ev.SubRun{Name: "cross", Bound: "4 fixed tables x 8 renderers x 10 error values x {plain, rich writer}, every write index x 3 failure modes of each; plus one table of about 500 rows (tens of KiB of output) x 8 renderers x 2 error values x {plain, rich}, sampled write indices; plus one of about 1800 rows (past 64 KiB) x {csv, html, json, markdown}", Cases: faultPoints, Exhaustive: true})
}

func TestProp(t *testing.T) {
	rapid.Check(t, func(rt *rapid.T) {
		c := caseGen().Draw(rt, "case")
		if v := evalAll(c); v != nil {
			rt.Fatalf("VIOLATION %s (detail in the replay file)", ID)
		}
	})
	ev.R().Sub(ev.SubRun{Name: "fault-points", Bound: "for each generated (table, renderer): every Write index k of the fault-free render x {fails from k on, fails only at k, partial write with error at k}", Cases: faultPoints, Exhaustive: true})
}
