package c06

import (
	"os"
	"strings"
	"testing"
	"unicode/utf8"

	"pgregory.net/rapid"

	"verif/harness/internal/ev"
	"verif/harness/internal/gen"
	"verif/harness/internal/h"
)

var prop = h.Prop[Case]{ID: ID, Check: CheckCase, Classify: Classify}

func TestMain(m *testing.M) { os.Exit(ev.Main(ID, m)) }

func TestReplay(t *testing.T) { prop.Replay(t, nil) }

var tokens = func() []string {
	out := []string{"\\", "\\n", "\\\"", "\t", "\v", "\x1b", "\x7f"}
	for _, tk := range gen.TokHTML {
		if !strings.Contains(tk, "\x00") { // html/template replaces NUL by U+FFFD by design: outside the input domain
			out = append(out, tk)
		}
	}
	return out
}()

// strOrHot: short token strings, and now and then a longer one dense with characters that become entities.
func strOrHot() *rapid.Generator[gen.Item] {
	str := gen.StrItem(tokens, 4)
	hot := gen.ExpandingString([]string{"<", "&", "\"", "'", ">", "&amp;", "\u00a0"})
	anyItem := gen.AnyItem(tokens, 1)
	return rapid.Custom(func(t *rapid.T) gen.Item {
		if gen.Rarely(t, "hot", 12) {
			return gen.S(hot.Draw(t, "hot-text"))
		}
		if rapid.IntRange(0, 5).Draw(t, "any?") == 0 {
			// any kind of item (its text form is what must come out), as long as that text is valid UTF-8 without NUL
			it := anyItem.Draw(t, "any")
			if txt := gen.TextForm(it, gen.Materialise(it)); utf8.ValidString(txt) && !strings.Contains(txt, "\x00") {
				return it
			}
		}
		return str.Draw(t, "str")
	})
}

// renamed: now and then the template name is changed between the renders on one wrapper.
func renamed(t *rapid.T) []gen.Str {
	if !gen.Rarely(t, "rename", 6) {
		return nil
	}
	var out []gen.Str
	for i, n := 0, rapid.IntRange(1, 3).Draw(t, "nnames"); i < n; i++ {
		out = append(out, gen.Str(rapid.SampledFrom([]string{"", "t", "report", "x y", "tabular-table", "t"}).Draw(t, "tname")))
	}
	return out
}

func caseGen() *rapid.Generator[Case] {
	max := 8
	if h.Thorough() {
		max = 14
	}
	sg := gen.ScriptGen(gen.ScriptOpts{
		AllowProps: true, AllowRowErr: true, MultiHdr: true, Item: strOrHot(),
		MinOps:     0,
		MaxOps:     max,
		MaxCells:   4,
		Creators:   []string{"core", "html", "html", "csv"},
		AllowReAdd: true,
	})
	opt := func(t *rapid.T, label string) gen.Str {
		if rapid.IntRange(0, 2).Draw(t, label+"?") == 0 {
			return ""
		}
		return gen.Str(gen.StringOf(tokens, 0, 4).Draw(t, label))
	}
	return rapid.Custom(func(t *rapid.T) Case {
		var cp *gen.Script
		if rapid.IntRange(0, 4).Draw(t, "copy?") == 0 {
			s2 := sg.Draw(t, "script2")
			s2.Creator = "core"
			cp = &s2
		}
		return Case{
			CopyTo:   cp,
			Script:   sg.Draw(t, "script"),
			Id:       opt(t, "id"),
			Class:    opt(t, "class"),
			Caption:  opt(t, "caption"),
			TmplName: opt(t, "tmpl"),
			Names:    renamed(t),
			Gens:     rapid.SliceOfN(rapid.SampledFrom([]int{0, 1, 2, 0, 1, 2, 0, 1, 2, 3}), 1, 3).Draw(t, "gens"),
		}
	})
}

func TestProp(t *testing.T) { prop.Rapid(t, caseGen()) }

func FuzzC06(f *testing.F) {
	f.Add("h", "a", "<b>", "&amp;", "id", "cls", "cap", uint8(0xff))
	f.Add("</th>", "<script>alert(1)</script>", "\"'", "&#x3c;", "\" onload=\"x", "a b", "</caption>", uint8(0x5b))
	f.Fuzz(func(t *testing.T, hd, a, b, c, id, class, caption string, shape uint8) {
		for _, s := range []string{hd, a, b, c, id, class, caption} {
			if !validNoNUL(s) {
				t.Skip()
			}
		}
		var ops []gen.Op
		if shape&1 != 0 {
			ops = append(ops, gen.Op{K: "hdr", Items: []gen.Item{gen.S(hd), gen.S(c)}[:1+int(shape>>1&1)]})
		}
		ops = append(ops, gen.Op{K: "rowitems", Items: []gen.Item{gen.S(a), gen.S(b), gen.S(c)}[:int(shape>>2)%4]})
		if shape&0x10 != 0 {
			ops = append(ops, gen.Op{K: "sep"})
		}
		ops = append(ops, gen.Op{K: "rowitems", Items: []gen.Item{gen.S(b)}})
		cs := Case{Script: gen.Script{Ops: ops}, Id: gen.Str(id), Class: gen.Str(class), Caption: gen.Str(caption), RowClass: shape&0x20 != 0, Renders: 1 + int(shape>>6&1)}
		if v := prop.Eval(cs); v != nil {
			t.Fatalf("VIOLATION %s", ID)
		}
	})
}
