package c06

import (
	"strings"
	"unicode/utf8"
)

// validNoNUL: the property's alphabets are valid UTF-8 without NUL
// (html/template replaces NUL and invalid bytes by U+FFFD by design).
func validNoNUL(s string) bool {
	return utf8.ValidString(s) && !strings.Contains(s, "\x00")
}
