// Package c06: HTML output has a fixed tag skeleton and cell text can never become markup.
package c06

import (
	"bytes"
	"fmt"
	stdhtml "html"
	"html/template"
	"strings"

	"go.pennock.tech/tabular"
	"go.pennock.tech/tabular/html"

	"verif/harness/internal/ev"
	"verif/harness/internal/gen"
	"verif/harness/internal/oracle"
)

const ID = "C06"

type Case struct {
	Script   gen.Script `json:"script"`
	Id       gen.Str    `json:"id,omitempty"`
	Class    gen.Str    `json:"class,omitempty"`
	Caption  gen.Str    `json:"caption,omitempty"`
	TmplName gen.Str    `json:"tmpl,omitempty"`
	RowClass bool       `json:"rowclass,omitempty"`
	Renders  int        `json:"renders,omitempty"`
	// Gens, if set, gives the row-class generator in force for each render: 0 none, 1 generator "r", 2 generator "s"
	// (replaced, installed or removed between renders on the same wrapper); it overrides RowClass/Renders.
	Gens []int `json:"gens,omitempty"`
	// Names, if set: before render i the wrapper's TemplateName is set to Names[i] (the name is a label: changing it
	// between renders changes nothing that is rendered)
	Names []gen.Str `json:"names,omitempty"`
	// CopyTo: after the renders, the wrapper struct is copied by value, the copy's Table is set to a table built
	// from this second history, and the copy renders: it must show the second table.
	CopyTo *gen.Script `json:"copy_to,omitempty"`
}

type parser struct {
	toks []oracle.HTok
	pos  int
}

func (p *parser) skipWS() *ev.Violation {
	for p.pos < len(p.toks) && !p.toks[p.pos].Tag {
		if strings.TrimSpace(p.toks[p.pos].Text) != "" {
			return ev.V("text %q between structural tags", p.toks[p.pos].Text)
		}
		p.pos++
	}
	return nil
}

// open consumes an opening tag with exactly the given attributes (decoded values).
func (p *parser) tag(closing bool, name string, attrs [][2]string) *ev.Violation {
	if v := p.skipWS(); v != nil {
		return v
	}
	if p.pos >= len(p.toks) {
		return ev.V("output ends where <%s> was expected", name)
	}
	t := p.toks[p.pos]
	if !t.Tag || t.Close != closing || t.Name != name {
		return ev.V("token %d is %s, expected %s", p.pos, describe(t), describe(oracle.HTok{Tag: true, Close: closing, Name: name}))
	}
	if len(t.Attrs) != len(attrs) {
		return ev.V("<%s> has attributes %v, expected %v", name, t.Attrs, attrs)
	}
	// the same set of attributes, in whatever order
	have := map[string]string{}
	for _, a := range t.Attrs {
		if _, dup := have[a[0]]; dup {
			return ev.V("<%s> repeats attribute %q", name, a[0])
		}
		have[a[0]] = a[1]
	}
	for _, a := range attrs {
		raw, ok := have[a[0]]
		if !ok {
			return ev.V("<%s> lacks attribute %q (has %v)", name, a[0], t.Attrs)
		}
		if got := stdhtml.UnescapeString(raw); got != a[1] {
			return ev.V("<%s %s> decodes to %q, supplied %q (raw %q)", name, a[0], got, a[1], raw)
		}
	}
	p.pos++
	return nil
}

// text consumes the (possibly empty) text of a th/td/caption and compares it decoded.
func (p *parser) text(what, want string) *ev.Violation {
	raw := ""
	if p.pos < len(p.toks) && !p.toks[p.pos].Tag {
		raw = p.toks[p.pos].Text
		p.pos++
	}
	if got := stdhtml.UnescapeString(raw); got != want {
		return ev.V("%s text decodes to %q, supplied %q (raw %q)", what, got, want, raw)
	}
	return nil
}

func describe(t oracle.HTok) string {
	if !t.Tag {
		return fmt.Sprintf("text %q", t.Text)
	}
	if t.Close {
		return "</" + t.Name + ">"
	}
	return "<" + t.Name + ">"
}

func rowClassAttr(prefix string, n int) [][2]string {
	if prefix == "" {
		return nil
	}
	return [][2]string{{"class", fmt.Sprintf("%s%d", prefix, n)}}
}

// CheckOutput verifies the skeleton and every text against the model.
func CheckOutput(out string, c Case, m *gen.Model, prefix string) *ev.Violation {
	toks, err := oracle.TokenizeHTML(out)
	if err != nil {
		return ev.V("output does not tokenise: %v\n%s", err, out)
	}
	p := &parser{toks: toks}
	var tattrs [][2]string
	if c.Class != "" {
		tattrs = append(tattrs, [2]string{"class", string(c.Class)})
	}
	if c.Id != "" {
		tattrs = append(tattrs, [2]string{"id", string(c.Id)})
	}
	steps := []func() *ev.Violation{
		func() *ev.Violation { return p.tag(false, "table", tattrs) },
	}
	run := func(f func() *ev.Violation) { steps = append(steps, f) }
	if c.Caption != "" {
		run(func() *ev.Violation { return p.tag(false, "caption", nil) })
		run(func() *ev.Violation { return p.text("caption", string(c.Caption)) })
		run(func() *ev.Violation { return p.tag(true, "caption", nil) })
	}
	run(func() *ev.Violation { return p.tag(false, "thead", nil) })
	run(func() *ev.Violation { return p.tag(false, "tr", rowClassAttr(prefix, 0)) })
	for i := range m.Header {
		txt := m.Header[i].Text
		run(func() *ev.Violation { return p.tag(false, "th", nil) })
		run(func() *ev.Violation { return p.text("th", txt) })
		run(func() *ev.Violation { return p.tag(true, "th", nil) })
	}
	run(func() *ev.Violation { return p.tag(true, "tr", nil) })
	run(func() *ev.Violation { return p.tag(true, "thead", nil) })
	run(func() *ev.Violation { return p.tag(false, "tbody", nil) })
	for ri, r := range m.Rows {
		if r.Sep {
			continue
		}
		pos := ri + 1
		run(func() *ev.Violation { return p.tag(false, "tr", rowClassAttr(prefix, pos)) })
		for i := range r.Cells {
			txt := r.Cells[i].Text
			run(func() *ev.Violation { return p.tag(false, "td", nil) })
			run(func() *ev.Violation { return p.text("td", txt) })
			run(func() *ev.Violation { return p.tag(true, "td", nil) })
		}
		run(func() *ev.Violation { return p.tag(true, "tr", nil) })
	}
	run(func() *ev.Violation { return p.tag(true, "tbody", nil) })
	run(func() *ev.Violation { return p.tag(true, "table", nil) })
	for _, f := range steps {
		if v := f(); v != nil {
			return ev.V("%s\n%s", v.Msg, out)
		}
	}
	if v := p.skipWS(); v != nil {
		return v
	}
	if p.pos != len(p.toks) {
		return ev.V("unexpected %s after </table>\n%s", describe(p.toks[p.pos]), out)
	}
	return nil
}

func CheckCase(c Case) *ev.Violation {
	t, m := gen.Build(c.Script)
	var w *html.HTMLTable
	if ht, ok := t.(*html.HTMLTable); ok {
		w = ht
	} else {
		w = html.Wrap(t)
	}
	gen.ScrambleRowsCopy(t) // the caller may do what it likes with the copy it was handed
	w.Id, w.Class, w.Caption, w.TemplateName = string(c.Id), string(c.Class), string(c.Caption), string(c.TmplName)
	var calls []int
	mkGen := func(prefix string) func(int, interface{}) template.HTMLAttr {
		return func(n int, x interface{}) template.HTMLAttr {
			p := x.(*[]int)
			*p = append(*p, n)
			return template.HTMLAttr(fmt.Sprintf("%s%d", prefix, n))
		}
	}
	gens := c.Gens
	if len(gens) == 0 {
		renders := c.Renders
		if renders < 1 {
			renders = 1
		}
		for i := 0; i < renders; i++ {
			if c.RowClass {
				gens = append(gens, 1)
			} else {
				gens = append(gens, 0)
			}
		}
	}
	wantCalls := []int{0}
	for ri, r := range m.Rows {
		if !r.Sep {
			wantCalls = append(wantCalls, ri+1)
		}
	}
	var prevOut string
	prevGen := -1
	for i, g := range gens {
		if i < len(c.Names) {
			w.TemplateName = string(c.Names[i])
		}
		prefix := ""
		if g == 3 {
			// a generator that blows up part-way: the render fails, and a failed Render returns no text
			w.SetRowClassGenerator(func(n int, x interface{}) template.HTMLAttr {
				if n > 0 || len(m.DataRows()) == 0 {
					panic("row-class generator failed")
				}
				return "r0"
			}, nil)
			prevGen = 3
			out, err := w.Render()
			if err == nil {
				return ev.V("render %d: the row-class generator panicked but Render returned no error (output %q)", i+1, out)
			}
			if out != "" {
				return ev.V("render %d: Render returned error %v together with text %q", i+1, err, out)
			}
			continue
		}
		if g != prevGen {
			switch g {
			case 0:
				w.SetRowClassGenerator(nil, nil)
			case 1:
				prefix = "r"
				w.SetRowClassGenerator(mkGen("r"), &calls)
			default:
				prefix = "s"
				w.SetRowClassGenerator(mkGen("s"), &calls)
			}
		} else {
			prefix = map[int]string{0: "", 1: "r", 2: "s"}[g]
		}
		if g == 2 {
			prefix = "s"
		} else if g == 1 {
			prefix = "r"
		}
		calls = calls[:0]
		out, err := w.Render()
		if err != nil {
			return ev.V("render %d failed: %v", i+1, err)
		}
		if g != 0 {
			if fmt.Sprint(calls) != fmt.Sprint(wantCalls) {
				return ev.V("render %d: row-class generator %q called with %v, expected %v", i+1, prefix, calls, wantCalls)
			}
		} else if len(calls) != 0 {
			return ev.V("render %d: a removed row-class generator was still called: %v", i+1, calls)
		}
		if v := CheckOutput(out, c, m, prefix); v != nil {
			return ev.V("render %d: %s", i+1, v.Msg)
		}
		if g == prevGen && out != prevOut {
			return ev.V("render %d differs from render %d on the same wrapper", i+1, i)
		}
		prevOut, prevGen = out, g
		var b bytes.Buffer
		calls = calls[:0]
		if err := w.RenderTo(&b); err != nil || b.String() != out {
			return ev.V("RenderTo wrote %q (err %v), Render returned %q", b.String(), err, out)
		}
	}
	if c.CopyTo != nil {
		t2, m2 := gen.Build(*c.CopyTo)
		cp := *w
		cp.Table = t2
		cp.SetRowClassGenerator(nil, nil)
		out, err := cp.Render()
		if err != nil {
			return ev.V("render through a copy of the wrapper failed: %v", err)
		}
		if v := CheckOutput(out, c, m2, ""); v != nil {
			return ev.V("a by-value copy of a wrapper that has rendered, pointed at another table: %s", v.Msg)
		}
	}
	return nil
}

var _ tabular.Table = (*html.HTMLTable)(nil)

func hostile(s string) bool { return strings.ContainsAny(s, "<>&\"'") }

func Classify(c Case) (bool, interface{}, []string) {
	var cl []string
	nt := false
	seen := map[string]bool{}
	add := func(s string) {
		if !seen[s] {
			seen[s] = true
			cl = append(cl, s)
		}
	}
	for _, p := range []struct {
		n string
		s gen.Str
	}{{"id", c.Id}, {"class", c.Class}, {"caption", c.Caption}} {
		if p.s != "" {
			add(p.n + "-set")
		}
		if hostile(string(p.s)) {
			nt = true
			add(p.n + "-hostile")
		}
		if strings.ContainsAny(string(p.s), "\\\n\t\r") {
			add(p.n + "-backslash-or-control")
		}
	}
	for _, op := range c.Script.Ops {
		switch op.K {
		case "sep":
			add("separator")
		case "hdr":
			add("header")
		case "appendnew", "zerorow":
			add("zero-cell-row")
		case "rowitems":
			if len(op.Items) == 0 {
				add("zero-cell-row")
			}
		}
		for _, it := range op.Items {
			s := string(it.S)
			if hostile(s) {
				nt = true
				add("cell-hostile")
			}
			if strings.Contains(s, "&") && strings.Contains(s, ";") {
				add("entity-lookalike")
			}
			if strings.Contains(s, "script") || strings.Contains(s, "style") {
				add("script-or-style-text")
			}
		}
	}
	if c.RowClass {
		add("row-class-generator")
	}
	if c.Renders > 1 || len(c.Gens) > 1 {
		add("re-render")
	}
	for i := 1; i < len(c.Gens); i++ {
		if c.Gens[i] != c.Gens[i-1] {
			add("generator-changed-between-renders")
		}
	}
	for _, op := range c.Script.Ops {
		if op.K == "readd" {
			add("row-added-twice")
		}
	}
	return nt, nil, cl
}
