package c03

import (
	"os"
	"testing"

	"pgregory.net/rapid"

	"verif/harness/internal/ev"
	"verif/harness/internal/gen"
	"verif/harness/internal/h"
)

var prop = h.Prop[Case]{ID: ID, Check: CheckCase, Classify: Classify}

func TestMain(m *testing.M) { os.Exit(ev.Main(ID, m)) }

func TestReplay(t *testing.T) { prop.Replay(t, nil) }

func caseGen() *rapid.Generator[Case] {
	max := 10
	if h.Thorough() {
		max = 16
	}
	sg := gen.ScriptGen(gen.ScriptOpts{
		AllowProps: true, AllowRowErr: true, HeavyTail: 12, Item: item(),
		AllowMutate: true,
		AllowCopy:   true,
		MinOps:      1,
		MaxOps:      max,
		MaxCells:    5,
		Creators:    []string{"core", "core", "texttable"},
	})
	dg := gen.DecoGen()
	return rapid.Custom(func(t *rapid.T) Case {
		c := Case{Script: sg.Draw(t, "script"), Deco: dg.Draw(t, "deco")}
		if rapid.IntRange(0, 3).Draw(t, "also?") == 0 {
			c.Also = rapid.SliceOfN(rapid.SampledFrom([]string{"markdown", "markdown!", "csv!", "json", "html!", "texttable", "texttable!", "none!"}), 1, 3).Draw(t, "also")
		}
		if rapid.IntRange(0, 2).Draw(t, "align?") == 0 {
			c.Align = rapid.SliceOfN(rapid.IntRange(0, 3), 1, 6).Draw(t, "align") // the rectangle holds under every alignment
		}
		c.Renders = rapid.IntRange(1, 3).Draw(t, "renders")
		c.AppCB = rapid.SampledFrom([]int{0, 0, 0, 1, 1, 2}).Draw(t, "appcb")
		c.LateText = rapid.IntRange(0, 7).Draw(t, "late-text") == 0 && c.Pre == 0
		if rapid.IntRange(0, 3).Draw(t, "pre?") == 0 {
			c.Pre = 1 + rapid.IntRange(0, len(c.Script.Ops)).Draw(t, "pre")
		}
		if gen.Rarely(t, "bulk", 400) {
			c.Bulk = rapid.SampledFrom([]int{1021, 1022, 1023, 1024, 1025, 2047}).Draw(t, "bulkrows") // row counts around powers of two
		}
		return c
	})
}

// item: strings mostly, sometimes a mutable Stringer (no size override) so that mutate+Update steps have an effect
func item() *rapid.Generator[gen.Item] {
	str := gen.StrItem(gen.TokWidth, 4)
	return rapid.Custom(func(t *rapid.T) gen.Item {
		it := str.Draw(t, "str")
		if gen.Rarely(t, "nested", 8) {
			// a cell holding a cell (by value or by pointer): it shows the inner cell's text, line by line
			in := it
			return gen.Item{K: rapid.SampledFrom([]string{"cell", "pcell"}).Draw(t, "nest"), In: &in}
		}
		if rapid.IntRange(0, 5).Draw(t, "stringer") == 0 {
			return gen.Item{K: "if", M: gen.MString, S: it.S, P: rapid.Bool().Draw(t, "ptr")}
		}
		return it
	})
}

func TestProp(t *testing.T) { prop.Rapid(t, caseGen()) }

func FuzzC03(f *testing.F) {
	f.Add("h", "a", "b\nc", "漢字", uint8(0xff), uint8(0))
	f.Add("", "\n\n", "​", "👩‍💻x", uint8(0x35), uint8(3))
	f.Add("wide header", "x", "", "é\n\nq", uint8(0x83), uint8(5))
	f.Fuzz(func(t *testing.T, hd, a, b, c string, shape, deco uint8) {
		if v := prop.Eval(MkFuzzCase(hd, a, b, c, shape, deco)); v != nil {
			t.Fatalf("VIOLATION %s", ID)
		}
	})
}

func MkFuzzCase(hd, a, b, c string, shape, deco uint8) Case {
	var ops []gen.Op
	hdr := gen.Op{K: "hdr", Items: []gen.Item{gen.S(hd), gen.S(c)}[:int(shape&3)%3]}
	if shape&4 != 0 {
		ops = append(ops, hdr)
	}
	ops = append(ops, gen.Op{K: "rowitems", Items: []gen.Item{gen.S(a), gen.S(b), gen.S(c)}[:int(shape>>3)%4]})
	if shape&0x20 != 0 {
		ops = append(ops, gen.Op{K: "sep"})
	}
	ops = append(ops, gen.Op{K: "rowitems", Items: []gen.Item{gen.S(b), gen.S(hd)}[:int(shape>>6)%3]})
	if shape&4 == 0 && shape&0x80 != 0 {
		ops = append(ops, hdr)
	}
	return Case{Script: gen.Script{Ops: ops}, Deco: gen.DecoSpec{Name: gen.BuiltinDecos[int(deco)%len(gen.BuiltinDecos)], ByCtor: deco&0x80 != 0}}
}
