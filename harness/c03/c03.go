// Package c03: a rendered text table is a rectangle whose columns fit their widest cell.
package c03

import (
	"verif/harness/internal/ev"
	"verif/harness/internal/tc"
)

const ID = "C03"

type Case = tc.Case

func CheckCase(c Case) *ev.Violation { return tc.Check(c) }

func Classify(c Case) (bool, interface{}, []string) {
	f := tc.Describe(c)
	nt := f.MultiLine || f.Wide || f.Ragged || f.ZeroCell || f.HdrNarrower || f.Custom
	return nt, nil, f.Classes
}
