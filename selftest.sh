#!/bin/bash
# selftest.sh [mutants|seeded|refactor|all] : sensitivity self-test.  Applies each breaking change to a scratch
# worktree of /repo under /tmp (never to /repo), confirms the existing suite still passes with it, and
# expects the mapped property's quick check to report a VIOLATION.  Prints one line per (change, check).
what=${1:-all}
cd "$(dirname "$0")"
fail=0
run() { # patch id...
  local patch=$1; shift
  for id in "$@"; do
    out=$(./seedtest.sh "$patch" quick "$id" 2>&1); rc=$?
    if [ $rc -eq 0 ]; then echo "CAUGHT  $(basename $(dirname $patch))/$(basename $patch) by $id"; else echo "MISSED  $patch by $id"; echo "$out" | tail -4; fail=1; fi
  done
}
if [ "$what" = mutants ] || [ "$what" = all ]; then
  while read p ids; do [ -n "$p" ] && run mutants/$p $ids; done < <(grep -v '^#' mutants/MAP.txt)
fi
if [ "$what" = seeded ] || [ "$what" = all ]; then
  # a seeded change counts as caught when the quick check of at least one property it is aimed at (meta.json) reports it;
  # changes listed in seeded/NOT_CAUGHT.txt (with the reason) are reported but do not fail the self-test
  for d in seeded/*/; do
    id=$(basename $d)
    case "$id" in _*) continue;; esac   # seeded/_superseded: changes overtaken by a repair of /repo (see their meta.json)
    props=$(python3 -c "import json,sys; print(json.load(open('$d/meta.json'))['property'])")
    hit=""
    for pid in $props; do
      out=$(./seedtest.sh $d/patch.diff quick "$pid" 2>&1); rc=$?
      if [ $rc -eq 0 ]; then hit="$hit $pid"; fi
    done
    if [ -n "$hit" ]; then echo "CAUGHT  seeded/$id by$hit (aimed at: $props)";
    elif grep -q "^$id thorough:" seeded/NOT_CAUGHT.txt 2>/dev/null; then
      # listed as beyond the quick tier: the thorough tier must report it
      thit=""
      for pid in $props; do
        out=$(./seedtest.sh $d/patch.diff thorough "$pid" 2>&1); rc=$?
        [ $rc -eq 0 ] && thit="$thit $pid"
      done
      if [ -n "$thit" ]; then echo "CAUGHT  seeded/$id by$thit (thorough tier only)"; else echo "MISSED  seeded/$id (also by the thorough tier)"; fail=1; fi
    elif grep -q "^$id " seeded/NOT_CAUGHT.txt 2>/dev/null; then echo "KNOWN-MISS seeded/$id (see seeded/NOT_CAUGHT.txt)";
    else echo "MISSED  seeded/$id (aimed at: $props)"; fail=1; fi
  done
fi
if [ "$what" = refactor ] || [ "$what" = all ]; then
  # behaviour-preserving refactors: every check must stay silent (exit 0)
  export GOFLAGS=-mod=mod GOPROXY=off GOSUMDB=off GOTOOLCHAIN=local
  for patch in mutants/refactor-*.patch; do
    wt=$(mktemp -d /tmp/refwt.XXXXXX); rmdir "$wt"
    git -C /repo worktree add --detach "$wt" HEAD >/dev/null 2>&1
    git -C "$wt" apply "$(readlink -f $patch)" || { echo "refactor patch does not apply"; fail=1; }
    (cd "$wt" && go build ./... && go test -vet=off -count=1 ./... >/dev/null 2>&1) || { echo "suite fails on refactor"; fail=1; }
    for id in $(python3 -c "import plan; print(' '.join(plan.PLAN))"); do
      out=$(VERIF_REPO_DIR="$wt" ./check $id quick 2>&1); rc=$?
      if [ $rc -eq 0 ]; then echo "SILENT  $(basename $patch) under $id"; else echo "ALARM   $(basename $patch) under $id (rc=$rc)"; echo "$out" | grep -E "VIOLATION|INCONCL" | head -3; fail=1; fi
    done
    git -C /repo worktree remove --force "$wt" >/dev/null 2>&1; rm -rf "$wt"
  done
fi
exit $fail
