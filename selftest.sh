#!/bin/bash
# selftest.sh [mutants|seeded|all] : sensitivity self-test.  Applies each breaking change to a scratch
# worktree of /repo under /tmp (never to /repo), confirms the existing suite still passes with it, and
# expects the mapped property's quick check to report a VIOLATION.  Prints one line per (change, check).
what=${1:-all}
cd "$(dirname "$0")"
fail=0
run() { # patch id...
  local patch=$1; shift
  for id in "$@"; do
    out=$(./seedtest.sh "$patch" quick "$id" 2>&1); rc=$?
    if [ $rc -eq 0 ]; then echo "CAUGHT  $(basename $(dirname $patch))/$(basename $patch) by $id"; else echo "MISSED  $patch by $id"; echo "$out" | tail -4; fail=1; fi
  done
}
if [ "$what" = mutants ] || [ "$what" = all ]; then
  grep -v '^#' mutants/MAP.txt | while read p ids; do [ -n "$p" ] && run mutants/$p $ids; done
fi
if [ "$what" = seeded ] || [ "$what" = all ]; then
  for d in seeded/*/; do id=$(basename $d); run $d/patch.diff ${id%%-*}; done
fi
exit $fail
