#!/bin/bash
# setup_cmd: offline sanity check + warm build of every property's test binary.
set -u
cd "$(dirname "$0")"
export GOFLAGS=-mod=mod GOPROXY=off GOSUMDB=off GOTOOLCHAIN=local
go version || exit 1
cd harness || exit 1
go vet ./... || exit 1
for d in c[0-9][0-9]; do
  go test -c -tags verif -vet=off -o /dev/null ./$d || exit 1
done
# the concurrency checks build with the race detector: warm that variant of the standard library too
for d in c16 c17; do
  go test -race -c -tags verif -vet=off -o /dev/null ./$d || exit 1
done
echo "setup ok"
