#!/bin/bash
# reftest.sh <patch>... : soundness control. Applies a behaviour-preserving change to a scratch worktree of /repo,
# confirms the suite passes, runs EVERY quick check (or those named in REFTEST_IDS) against it and reports any alarm (there must be none).
here=$(cd "$(dirname "$0")" && pwd)
export GOFLAGS=-mod=mod GOPROXY=off GOSUMDB=off GOTOOLCHAIN=local
bad=0
for patch in "$@"; do
  patch=$(readlink -f "$patch")
  wt=$(mktemp -d /tmp/refwt.XXXXXX); rmdir "$wt"
  git -C /repo worktree add --detach "$wt" HEAD >/dev/null 2>&1 || { echo "worktree failed"; exit 3; }
  if ! git -C "$wt" apply "$patch"; then echo "DOES-NOT-APPLY $patch"; git -C /repo worktree remove --force "$wt"; continue; fi
  if ! (cd "$wt" && go build ./... && go test -vet=off -count=1 ./... >/dev/null 2>&1); then echo "SUITE-FAILS $patch"; git -C /repo worktree remove --force "$wt"; continue; fi
  alarms=""
  for id in ${REFTEST_IDS:-$(cd "$here" && python3 -c "import plan; print(' '.join(plan.PLAN))")}; do
    out=$(cd "$here" && VERIF_REPO_DIR="$wt" ./check $id quick 2>&1); rc=$?
    if [ $rc -ne 0 ]; then alarms="$alarms $id(rc=$rc)"; echo "--- $patch under $id:"; echo "$out" | grep -E -A2 "VIOLATION|INCONCL" | head -8; mkdir -p /tmp/refalarms; cp "$here"/failures/$id-* /tmp/refalarms/ 2>/dev/null; fi
  done
  if [ -z "$alarms" ]; then echo "SILENT $patch"; else echo "ALARM  $patch :$alarms"; bad=1; fi
  git -C /repo worktree remove --force "$wt" >/dev/null 2>&1; rm -rf "$wt"
done
exit $bad
